"""C02 / C17 / C04 / C18-sites / C19(b) — the offset and provenance arithmetic of citation extraction.

One harness per writer of span fields (they write disjoint fields), each symbolically executing the real
source on a window of W document pieces with symbolic cut points around the citation token:

  post    add_post_citation          full-span end, pin-cite end, year, parenthetical, extra
  defn    add_defendant              full-span start, plaintiff, defendant, leading year
  pre     add_pre_citation           full-span start, pin-cite start, antecedent
  short   _extract_shortform_citation (+ extract_pin_cite)   span end, both full-span ends
  supra   _extract_supra_citation
  id      _extract_id_citation
  law     add_law_metadata
  journal add_journal_metadata
  ref     extract_pincited_reference_citations
  par     FullCaseCitation.is_parallel_citation on two neighbours

The document is a text of symbolic length n < 300 (so MAX_MATCH_CHARS is never reached) cut into pieces
p_0 < p_1 < ... ; a piece is a plain word (a slice of the text) or a special token whose start/end are
the cut points - exactly the shape C12 guarantees.  Regex results come from the contract stub of
vf.stubs sharpened by facts read off the real pattern's AST.  Every string stored in metadata carries its
(lo, hi) provenance, so "inside the full span" is an inequality.
"""
import z3

from vf import common, stubs, symex
from vf.symex import SInt, TStr, lift_int, mval

PIECE_KINDS = ["word", "stop_v", "stop_other", "cite", "para"]
MAXN = 299


def us_edition():
    import eyecite.tokenizers as T

    return T.EDITIONS_LOOKUP["U.S."][0]


class Base(common.Harness):
    part = None

    def __init__(self, params):
        super().__init__(params)
        import regex

        import eyecite.find as F
        import eyecite.helpers as Hh
        import eyecite.models as M

        self.F, self.Hh, self.M, self.regex = F, Hh, M, regex
        self.W = params["W"]
        self.n = z3.Int("n")
        # `long`: the text may exceed MAX_MATCH_CHARS, so the truncation branch of match_on_tokens is explored
        self.eng.assume(z3.And(self.n >= 0, self.n <= (900 if params.get("long") else MAXN)))
        it = self.interp
        it.stubs[regex.search] = self.stub_search
        import re as _re

        it.stubs[_re.search] = lambda pattern, text, flags=0: (_re.search(pattern, text, flags) if isinstance(text, str) else stubs.sym_search(self.eng, pattern, text, flags, module=_re, n=self.n, tag="re", newline_free=True))
        it.stubs[Hh.get_court_by_paren] = lambda s: "scotus"
        it.stubs[Hh.process_parenthetical] = self.stub_paren
        it.stubs[int] = self.stub_int
        self.hi = z3.Int("highest_valid_year")
        self.eng.assume(self.hi >= 2025)

    # ---- stubs
    def stub_search(self, pattern, text, flags=0, **kw):
        if isinstance(text, str):
            return self.regex.search(pattern, text, flags=flags, **kw)
        m = stubs.sym_search(self.eng, pattern, text, flags, module=self.regex, n=self.n, tag=f"r{len(self.matches)}", newline_free=True)
        if m is not None and not isinstance(m, self.regex.Match):
            stubs.apply_facts(self.eng, m, pattern, flags)
            self.matches.append((pattern, m))
        return m

    def stub_paren(self, p):
        """summary of process_parenthetical (proved by the lemma harness HParen): None, the argument, or a
        proper prefix of it."""
        if p is None:
            return None
        k = self.eng.choose([z3.Int(f"paren{self.eng.ctr}") == j for j in range(3)])
        if k == 0:
            return None
        if k == 1:
            return p
        lo, hi = p.single()
        cut = self.eng.fresh_int("parencut")
        self.eng.add(lo <= cut, cut < hi)
        return TStr.sub(lo, cut, self.n)

    def stub_int(self, x=0, *a):
        if isinstance(x, TStr):
            # digits are guaranteed by the year patterns (\\d{4}); the value is a function of the slice
            tab = self.eng.path_state.setdefault("intval", {})
            k = x.key()
            if k not in tab:
                v = self.eng.fresh_int("intval")
                ln = x.length().e
                self.eng.add(v >= 0, z3.Implies(ln == 4, v <= 9999))
                tab[k] = v
            return SInt(tab[k])
        return int(x, *a)

    # ---- document pieces
    def pieces(self, k, first_cut, tagp, before=None):
        """k consecutive pieces starting at cut `first_cut`; returns (words, cuts).  `before`: the piece that
        precedes the first one (so that adjacency constraints apply across the seam)."""
        eng, M = self.eng, self.M
        cuts = [first_cut] + [z3.Int(f"{tagp}{j}") for j in range(k)]
        words = [before] if before is not None else []
        for j in range(k):
            eng.add(cuts[j] < cuts[j + 1])
            kind = PIECE_KINDS[eng.choose([z3.Int(f"{tagp}k{j}") == x for x in range(len(PIECE_KINDS))])]
            data = TStr.sub(cuts[j], cuts[j + 1], self.n)
            a, b = SInt(cuts[j]), SInt(cuts[j + 1])
            if kind == "word":
                words.append(data)
            elif kind in ("stop_v", "stop_other"):
                # STOP_WORD_REGEX is (?:^|\s)(...)(?:\s|$): the character before a stop-word token is white
                # space, i.e. the previous piece is a " " word or a paragraph token (tokens exclude that character)
                if words:
                    prev = words[-1]
                    if isinstance(prev, TStr):
                        if not bool(prev == " "):
                            raise symex.Infeasible()
                    elif not isinstance(prev, M.ParagraphToken):
                        raise symex.Infeasible()
                words.append(M.StopWordToken(data, a, b, groups={"stop_word": "v" if kind == "stop_v" else "see"}))
            elif kind == "cite":
                words.append(M.CitationToken(data, a, b, groups={"volume": "9", "reporter": "Z", "page": "9"}, exact_editions=(us_edition(),)))
            else:
                words.append(M.ParagraphToken(data, a, b, groups={}))
            self.kinds.append(kind)
        if before is not None:
            words = words[1:]
        return words, cuts

    def window(self, before, after, short=False, tokcls="cite"):
        """words = `before` pieces, the token under test, `after` pieces."""
        eng, M = self.eng, self.M
        self.kinds, self.matches = [], []
        nb = eng.choose([z3.Int("nbefore") == k for k in range(before + 1)]) if before else 0
        na = eng.choose([z3.Int("nafter") == k for k in range(after + 1)]) if after else 0
        p0 = z3.Int("p0")
        eng.add(p0 >= 0)
        if nb == 0 and before:
            pass
        wb, cb = self.pieces(nb, p0, "b")
        ts = cb[-1]
        te = z3.Int("tok_end")
        eng.add(ts < te)
        data = TStr.sub(ts, te, self.n)
        if tokcls == "cite":
            groups = {"volume": "1", "reporter": "U.S.", "page": "1"}
            tok = M.CitationToken(data, SInt(ts), SInt(te), groups=groups, exact_editions=(us_edition(),), short=short)
            if short:
                # the page group is a suffix of the token (checked on every short extractor, see short_page_fact())
                q = z3.Int("page_start")
                if eng.choose([z3.Bool("page_is_suffix"), z3.Not(z3.Bool("page_is_suffix"))]) == 0:
                    eng.add(ts < q, q < te)
                    tok.groups["page"] = TStr.sub(q, te, self.n)
                else:
                    # a few reporters have text after the page ("2019 CO at 12M")
                    r = z3.Int("page_end")
                    eng.add(ts < q, q < r, r < te)
                    tok.groups["page"] = TStr.sub(q, r, self.n)
                self.page_start = q
        elif tokcls == "id":
            tok = M.IdToken(data, SInt(ts), SInt(te), groups={})
        else:
            tok = M.SupraToken(data, SInt(ts), SInt(te), groups={})
        wa, ca = self.pieces(na, te, "a", before=tok)
        eng.add(ca[-1] <= self.n)
        # the window starts at the beginning of the text when nothing precedes it
        self.first_cut = p0
        self.words = wb + [tok] + wa
        self.ci = nb
        self.tok, self.ts, self.te = tok, ts, te
        self.cuts_after = ca
        self.after_kinds = self.kinds[nb:]
        return self.words, self.ci

    def next_special_start(self):
        """start of the first non-string piece after the token (or n)."""
        for j, k in enumerate(self.after_kinds):
            if k != "word":
                return self.cuts_after[j]
        return self.n

    def witness(self, m):
        w = {"part": self.part, "n": mval(m, self.n), "kinds": list(self.kinds), "ci": getattr(self, "ci", None), "token": (mval(m, self.ts), mval(m, self.te))}
        w["matches"] = []
        for pat, mm in getattr(self, "matches", []):
            d = {"span": (mval(m, mm.s), mval(m, mm.e)), "groups": {}}
            for k, v in mm.g.items():
                if v not in ("lazy", None):
                    d["groups"][k] = (mval(m, v[0]), mval(m, v[1]))
                elif v is None:
                    d["groups"][k] = None
            w["matches"].append(d)
        return w

    def describe(self, kind, out):
        m = self.eng.path_model()
        return self.witness(m) if m is not None else {}

    # ---- common clauses
    def envelope(self, c):
        s0, s1 = [lift_int(x) for x in self.interp.call(self.M.CitationBase.span, (c,), {})]
        f0, f1 = [lift_int(x) for x in self.interp.call(self.M.CitationBase.full_span, (c,), {})]
        p0, p1 = [lift_int(x) for x in self.interp.call(self.M.CitationBase.span_with_pincite, (c,), {})]
        return s0, s1, f0, f1, p0, p1

    def provenance(self, c, f0, f1, fields):
        conds = []
        for name in fields:
            v = getattr(c.metadata, name, None)
            if isinstance(v, TStr):
                conds.append(v.inside(f0, f1))
            elif v is not None and not isinstance(v, str):
                conds.append(z3.BoolVal(False))
        return z3.And(*conds) if conds else z3.BoolVal(True)

    def year_clause(self, c):
        y = getattr(c, "year", None)
        if y is None:
            return z3.BoolVal(True)
        ty = getattr(c.metadata, "year", None)
        if not isinstance(ty, TStr):
            return z3.BoolVal(False)
        tab = self.eng.path_state.get("intval", {})
        tv = tab.get(ty.key())
        if tv is None:
            return z3.BoolVal(False)
        y = lift_int(y)
        return z3.And(y >= 1600, y <= self.hi, y == tv)

    def run_with_clock(self, fn):
        saved = self.Hh._highest_valid_year
        self.Hh._highest_valid_year = SInt(self.hi)
        try:
            return fn()
        finally:
            self.Hh._highest_valid_year = saved

    def exc(self, out):
        return [self.check(f"C04:no_exception:{self.part}:{type(out).__name__}", False, self.witness)]

    def std(self, c, fields):
        s0, s1, f0, f1, p0, p1 = self.envelope(c)
        n = self.n
        fs = [
            self.check(f"C02:{self.part}:0<=full_start<=start<=end<=full_end<=len", z3.And(0 <= f0, f0 <= s0, s0 <= s1, s1 <= f1, f1 <= n), self.witness),
            self.check(f"C02:{self.part}:span_starts_at_token_and_covers_it", z3.And(s0 == self.ts, s1 >= self.te), self.witness),
            self.check(f"C02:{self.part}:pincite_span_contains_span", z3.And(p0 <= s0, s1 <= p1, 0 <= p0, p1 <= n), self.witness),
            self.check(f"C17:{self.part}:metadata_inside_full_span", self.provenance(c, f0, f1, fields), self.witness),
            self.check(f"C18:{self.part}:numeric_year_in_range_and_equals_text", self.year_clause(c), self.witness),
        ]
        par = getattr(c.metadata, "parenthetical", None)
        if isinstance(par, TStr) and self.part in ("post", "law", "journal"):
            # C01: "its full span ... covers the written citation up to its closing parenthesis"
            fs.append(self.check(f"C01:{self.part}:full_span_covers_the_closing_parenthesis_of_its_parenthetical", f1 >= par.single()[1] + 1, self.witness))
        pin = getattr(c.metadata, "pin_cite", None)
        if isinstance(pin, TStr) and self.part not in ("law", "journal"):
            # law and journal citations record a pin cite but no pin-cite span ("for that kind of citation")
            fs.append(self.check(f"C02:{self.part}:pincite_span_contains_pin_cite_text", pin.inside(p0, p1), self.witness))
        return fs


FULL_FIELDS = ["pin_cite", "year", "parenthetical", "extra", "plaintiff", "defendant", "antecedent_guess"]


class HPost(Base):
    part = "post"

    def run(self):
        words, ci = self.window(0, self.W)
        c = self.M.FullCaseCitation(self.tok, ci, exact_editions=(us_edition(),))
        self.run_with_clock(lambda: self.interp.call(self.Hh.add_post_citation, (c, words), {}))
        return c

    def judge(self, kind, out):
        return self.exc(out) if kind == "exc" else self.std(out, FULL_FIELDS)


class HDef(Base):
    part = "defn"

    def run(self):
        words, ci = self.window(self.W, 0)
        c = self.M.FullCaseCitation(self.tok, ci, exact_editions=(us_edition(),))
        if self.eng.choose([z3.Bool("post_year_already_set"), z3.Not(z3.Bool("post_year_already_set"))]) == 0:
            # pre-state as add_post_citation leaves it (it runs first): a textual year after the token and the
            # numeric year that is its value, in range - the invariant the year clause asks for
            a0 = self.eng.fresh_int("postyear_lo")
            self.eng.add(self.te <= a0, a0 + 4 <= self.n)
            ty = TStr.sub(a0, a0 + 4, self.n)
            v0 = self.eng.fresh_int("intval")
            self.eng.add(v0 >= 1600, v0 <= self.hi)
            self.eng.path_state.setdefault("intval", {})[ty.key()] = v0
            c.metadata.year = ty
            c.year = SInt(v0)
            fe0 = self.eng.fresh_int("post_full_end")
            self.eng.add(a0 + 4 <= fe0, fe0 <= self.n)
            c.full_span_end = SInt(fe0)
        self.run_with_clock(lambda: self.interp.call(self.Hh.add_defendant, (c, words), {}))
        return c

    def judge(self, kind, out):
        if kind == "exc":
            return self.exc(out)
        fs = self.std(out, FULL_FIELDS)
        pl = out.metadata.plaintiff
        if isinstance(pl, TStr) and pl.single() is not None and out.full_span_start is not None:
            lo, hi = pl.single()
            # C01: "its full span starts at the extracted plaintiff" (when the plaintiff text is non-empty)
            fs.append(self.check("C01:defn:full_span_starts_at_extracted_plaintiff", z3.Implies(hi > lo, lift_int(out.full_span_start) == lo), self.witness))
        return fs


class HPre(Base):
    part = "pre"

    def run(self):
        words, ci = self.window(self.W, 0)
        c = self.M.FullCaseCitation(self.tok, ci, exact_editions=(us_edition(),))
        self.interp.call(self.Hh.add_pre_citation, (c, words), {})
        return c

    def judge(self, kind, out):
        return self.exc(out) if kind == "exc" else self.std(out, FULL_FIELDS)


class HShort(Base):
    part = "short"

    def run(self):
        words, ci = self.window(min(self.W, 2), self.W, short=True)
        return self.interp.call(self.F._extract_shortform_citation, (words, ci), {})

    def judge(self, kind, out):
        if kind == "exc":
            return self.exc(out)
        fs = self.std(out, ["pin_cite", "antecedent_guess"])
        s0, s1, f0, f1, p0, p1 = self.envelope(out)
        fs.append(self.check("C03lemma:short:span_ends_before_next_special_token", s1 <= self.next_special_start(), self.witness))
        fs.append(self.check("C03lemma:short:full_span_is_antecedent_plus_span", z3.And(f1 == s1), self.witness))
        return fs


class HSupra(Base):
    part = "supra"

    def run(self):
        words, ci = self.window(min(self.W, 2), self.W, tokcls="supra")
        return self.interp.call(self.F._extract_supra_citation, (words, ci), {})

    def judge(self, kind, out):
        if kind == "exc":
            return self.exc(out)
        fs = self.std(out, ["pin_cite", "antecedent_guess", "volume"])
        s0, s1, f0, f1, p0, p1 = self.envelope(out)
        fs.append(self.check("C03lemma:supra:span_ends_before_next_special_token", s1 <= self.next_special_start(), self.witness))
        return fs


class HId(Base):
    part = "id"

    def run(self):
        words, ci = self.window(0, self.W, tokcls="id")
        return self.interp.call(self.F._extract_id_citation, (words, ci), {})

    def judge(self, kind, out):
        if kind == "exc":
            return self.exc(out)
        fs = self.std(out, ["pin_cite"])
        s0, s1, f0, f1, p0, p1 = self.envelope(out)
        fs.append(self.check("C03lemma:id:span_ends_before_next_special_token", s1 <= self.next_special_start(), self.witness))
        return fs


class HLaw(Base):
    part = "law"

    def run(self):
        words, ci = self.window(0, self.W)
        c = self.M.FullLawCitation(self.tok, ci, exact_editions=(us_edition(),))
        self.run_with_clock(lambda: self.interp.call(self.Hh.add_law_metadata, (c, words), {}))
        return c

    def judge(self, kind, out):
        return self.exc(out) if kind == "exc" else self.std(out, ["pin_cite", "year", "parenthetical", "publisher", "month", "day"])


class HJournal(Base):
    part = "journal"

    def run(self):
        words, ci = self.window(0, self.W)
        c = self.M.FullJournalCitation(self.tok, ci, exact_editions=(us_edition(),))
        self.run_with_clock(lambda: self.interp.call(self.Hh.add_journal_metadata, (c, words), {}))
        return c

    def judge(self, kind, out):
        return self.exc(out) if kind == "exc" else self.std(out, ["pin_cite", "year", "parenthetical"])


class HPar(Base):
    """is_parallel_citation on two consecutive full case citations with arbitrary (possibly None) full-span starts."""

    part = "par"

    def run(self):
        eng, M = self.eng, self.M
        self.kinds, self.matches = [], []
        cs, self.sym = [], []
        for i in range(2):
            s, e = z3.Int(f"s{i}"), z3.Int(f"e{i}")
            eng.add(0 <= s, s < e, e <= self.n)
            tok = M.CitationToken(TStr.sub(s, e, self.n), SInt(s), SInt(e), groups={"volume": "1", "reporter": "U.S.", "page": "1"}, exact_editions=(us_edition(),))
            c = M.FullCaseCitation(tok, i, exact_editions=(us_edition(),))
            if eng.choose([z3.Bool(f"named{i}"), z3.Not(z3.Bool(f"named{i}"))]) == 0:
                fs = z3.Int(f"fs{i}")
                eng.add(0 <= fs, fs <= s)
                c.full_span_start = SInt(fs)
            else:
                fs = None
            fe = z3.Int(f"fe{i}")
            eng.add(e <= fe, fe <= self.n)
            c.full_span_end = SInt(fe)
            # each citation's own metadata lies in its own full span
            lo = fs if fs is not None else s
            for fld in ("plaintiff", "defendant", "year"):
                if eng.choose([z3.Bool(f"{fld}{i}"), z3.Not(z3.Bool(f"{fld}{i}"))]) == 0:
                    a, b = z3.Int(f"{fld}{i}_lo"), z3.Int(f"{fld}{i}_hi")
                    eng.add(lo <= a, a < b, b <= fe)
                    setattr(c.metadata, fld, TStr.sub(a, b, self.n))
                    if fld == "year" and eng.choose([z3.Bool(f"numyear{i}"), z3.Not(z3.Bool(f"numyear{i}"))]) == 0:
                        # pre-state invariant (C18, established by add_post_citation / add_defendant): a numeric
                        # year is the value of the textual year and lies in the accepted range
                        yv = self.stub_int(c.metadata.year)
                        eng.add(lift_int(yv) >= 1600, lift_int(yv) <= self.hi)
                        c.year = yv
            cs.append(c)
            self.sym.append((s, e, fs, fe))
        eng.add(self.sym[0][1] <= self.sym[1][0])
        self.ts, self.te = self.sym[1][0], self.sym[1][1]
        self.interp.call(M.FullCaseCitation.is_parallel_citation, (cs[1], cs[0]), {})
        return cs

    def witness(self, m):
        return {"part": "par", "n": mval(m, self.n), "citations": [(mval(m, s), mval(m, e), None if fs is None else mval(m, fs), mval(m, fe)) for s, e, fs, fe in self.sym]}

    def judge(self, kind, out):
        if kind == "exc":
            return self.exc(out)
        a, b = out
        (s0, e0, fs0, fe0), (s1, e1, fs1, fe1) = self.sym
        lo1 = fs1 if fs1 is not None else s1
        lo0 = fs0 if fs0 is not None else s0
        same_start = z3.BoolVal(False) if (fs0 is None or fs1 is None) else fs0 == fs1
        conds = []
        for fld in ("plaintiff", "defendant", "year"):
            v = getattr(b.metadata, fld)
            if isinstance(v, TStr):
                own = v.inside(lo1, fe1)
                joint = z3.And(same_start, v.inside(z3.If(lo0 < lo1, lo0, lo1), z3.If(fe0 > fe1, fe0, fe1)))
                conds.append(z3.Or(own, joint))
        return [
            self.check("C17:par:metadata_inside_own_or_joint_extent_of_citations_starting_together", z3.And(*conds) if conds else z3.BoolVal(True), self.witness),
            self.check("C18:par:numeric_year_in_range_and_equals_text", self.year_clause(b), self.witness),
        ]


class HMono(Base):
    """lemma for C03's envelope: for two full case citations in one document (i before j) the full-span start
    computed for j (add_defendant, then add_pre_citation) is never smaller than the one computed for i."""

    part = "mono"

    def run(self):
        eng, M = self.eng, self.M
        self.kinds, self.matches = [], []
        n1 = eng.choose([z3.Int("n_before_i") == k for k in range(self.W + 1)])
        n2 = eng.choose([z3.Int("n_between") == k for k in range(self.W + 1)])
        p0 = z3.Int("p0")
        eng.add(p0 >= 0)
        w1, c1 = self.pieces(n1, p0, "b")

        def cite(start, tag):
            te = z3.Int(tag + "_end")
            eng.add(start < te)
            return M.CitationToken(TStr.sub(start, te, self.n), SInt(start), SInt(te), groups={"volume": "1", "reporter": "U.S.", "page": "1"}, exact_editions=(us_edition(),)), te

        ti, ei = cite(c1[-1], "ti")
        w2, c2 = self.pieces(n2, ei, "m", before=ti)
        tj, ej = cite(c2[-1], "tj")
        eng.add(ej <= self.n)
        words = w1 + [ti] + w2 + [tj]
        self.ts, self.te = c2[-1], ej
        ii, jj = len(w1), len(w1) + 1 + len(w2)
        out = []
        for tok, idx in ((ti, ii), (tj, jj)):
            c = M.FullCaseCitation(tok, idx, exact_editions=(us_edition(),))
            self.run_with_clock(lambda: self.interp.call(self.Hh.add_defendant, (c, words), {}))
            self.interp.call(self.Hh.add_pre_citation, (c, words), {})
            out.append(c)
        self.si, self.sj = c1[-1], c2[-1]
        return out

    def witness(self, m):
        w = Base.witness(self, m)
        w["first_citation_start"] = mval(m, self.si)
        return w

    def judge(self, kind, out):
        if kind == "exc":
            return self.exc(out)
        a, b = out
        fa = lift_int(a.full_span_start) if a.full_span_start is not None else self.si
        fb = lift_int(b.full_span_start) if b.full_span_start is not None else self.sj
        return [self.check("C03lemma:mono:full_span_starts_monotone_in_document_order", fa <= fb, self.witness)]


class HRef(Base):
    part = "ref"

    def __init__(self, params):
        super().__init__(params)
        from vf import stubs as st

        def hook(pat, name, args, kwargs):
            if name != "finditer":
                raise symex.NotEncodable(f"compiled pattern .{name}")
            fl = st.sym_finditer_first_last(self.eng, pat.pattern, args[0], pat.flags, n=self.n)
            out = []
            if fl.first is not None:
                out.append(fl.first)
                if fl.last is not fl.first:
                    out.append(fl.last)
            self.refmatches = out
            return out

        self.interp.pattern_hook = hook
        import eyecite.utils as U

        self.interp.stubs[U.is_valid_name] = lambda name: True

    def run(self):
        eng, M = self.eng, self.M
        self.kinds, self.matches = [], []
        s, e = z3.Int("s"), z3.Int("e")
        eng.add(0 <= s, s < e, e <= self.n)
        self.ts, self.te = s, e
        tok = M.CitationToken(TStr.sub(s, e, self.n), SInt(s), SInt(e), groups={"volume": "1", "reporter": "U.S.", "page": "1"}, exact_editions=(us_edition(),))
        c = M.FullCaseCitation(tok, 0, exact_editions=(us_edition(),))
        c.metadata.defendant = "Bar"
        if eng.choose([z3.Bool("has_span_end"), z3.Not(z3.Bool("has_span_end"))]) == 0:
            pass
        text = TStr.base(self.n)
        refs = self.interp.call(self.F.extract_pincited_reference_citations, (c, text), {})
        return c, refs

    def judge(self, kind, out):
        if kind == "exc":
            return self.exc(out)
        c, refs = out
        conds = []
        for r in refs:
            s0, s1 = [lift_int(x) for x in self.interp.call(self.M.CitationBase.span, (r,), {})]
            f0, f1 = [lift_int(x) for x in self.interp.call(self.M.CitationBase.full_span, (r,), {})]
            conds.append(z3.And(self.te <= s0, 0 <= f0, f0 <= s0, s0 <= s1, s1 <= f1, f1 <= self.n))
            d = r.token.data
            if isinstance(d, TStr):
                conds.append(d.covers(s0, s1))
        return [self.check("C19:ref:reference_lies_after_its_citation_with_valid_offsets", z3.And(*conds) if conds else z3.BoolVal(True), self.witness)]


class HParen(common.Harness):
    """lemma: process_parenthetical returns None, its argument, or a proper prefix - every text <= N chars."""

    def __init__(self, params):
        super().__init__(params)
        import eyecite.helpers as Hh

        from vf import symre

        self.Hh, self.symre = Hh, symre
        self.N = params["N"]
        symre.install(self.interp)

    def run(self):
        n = self.eng.choose([z3.Int("len") == k for k in range(self.N + 1)])
        s = self.symre.CStr.fresh(self.eng, n)
        self.s = s
        return self.interp.call(self.Hh.process_parenthetical, (s,), {})

    def witness(self, m):
        return {"part": "paren", "text": self.s.concrete(m)}

    def describe(self, kind, out):
        m = self.eng.path_model()
        return self.witness(m) if m is not None else {}

    def judge(self, kind, out):
        if kind == "exc":
            return [self.check("C04:no_exception:paren:" + type(out).__name__, False, self.witness)]
        ok = out is None
        if not ok and isinstance(out, self.symre.CStr):
            k = len(out)
            ok = k <= len(self.s) and k > 0 and bool(self.symre.same(out, self.symre.CStr(self.s.chars[:k]), self.eng))
        return [self.check("lemma:process_parenthetical_returns_None_or_prefix", z3.BoolVal(bool(ok)), self.witness)]


PARTS = {"post": HPost, "defn": HDef, "pre": HPre, "short": HShort, "supra": HSupra, "id": HId, "law": HLaw, "journal": HJournal, "par": HPar, "ref": HRef, "paren": HParen, "mono": HMono}


def make(params):
    return PARTS[params["part"]](params)


# ---------------------------------------------------------------- data side conditions
def short_page_fact():
    """every short extractor's page group ends where group 1 ends (so prefix + following words is the
    document text): checked on the AST of each installed short pattern. returns list of offenders."""
    import re._constants as sc
    import re._parser as sp

    import eyecite.tokenizers as T

    bad = []
    n = 0
    for i, e in enumerate(T.EXTRACTORS):
        if not e.extra.get("short"):
            continue
        n += 1
        p = sp.parse(e.regex, e.flags)
        gd = dict(p.state.groupdict)
        if "page" not in gd:
            bad.append((i, "no page group"))
            continue

        def last_consuming(seq):
            items = list(seq)
            while items:
                op, av = items[-1]
                if op == sc.SUBPATTERN:
                    if av[0] == gd["page"]:
                        return True
                    return last_consuming(av[3])
                if op == sc.AT:
                    items.pop()
                    continue
                return False
            return False

        g1 = [av for op, av in p if op == sc.SUBPATTERN and av[0] == 1]
        if not g1 or not last_consuming(g1[0][3]):
            bad.append((i, "page group is not the suffix of group 1"))
    return n, bad


# ---------------------------------------------------------------- concrete corpus (model-guided replay)
PRE = ["", "See ", "Foo v. Bar, ", "Foo\tv. Bar, ", "(Foo v. Bar, ", "x (Foo v. Bar, ", "Bar, ", "Nobelman at 332, ", "citing ", "see ", "x; ", "In re Foo, ", "Foo v. Bar (1999) ", "Foo v. Bar (2100) ", "Foo v. Bar (1599) ", "Foo\nv. Bar, ", "v. Bar, ", " v. Bar, ", "A v. B, 1 U.S. 1, ", "Adarand, ", "Adarand ", "Adarand, 515 "]
CITE = ["1 U.S. 1", "1 U.S. at 5", "1 U.S., at 5", "2 F.2d 2", "Id.", "id.,", "Ibid.", "supra", "supra,", "42 U.S.C. § 1983", "1 Minn. L. Rev. 1", "1 U.S. ___", "1 U. S. 1", "1 U.S. at xii"]
POST = ["", ".", " foo bar.", ", 5", ", 5 foo", ", at 5-6.", " (1999)", " (2d Cir. 1999)", ", 5 (1999) (overruling x)", " (overruling (x) y) z)", " (1999) ()", " (1999) (1991 Term)", ", 2 S. Ct. 2, 3 (1999)", " at 5 foo", ", at 12, § 4.", " (West 1999)", ", 5 (2100)", ", 5 (1599)", " (1600)", ", at 3 (overruling xyz)", "-6.", ", 5-6; id. at 7", " (a)(2) (West Supp. May 2, 1999) (x)", ", 12 (1999) (x", " at 5\nfoo", ", at 5, 6, 7.", " [1999]", ", n. 5 (1999)"]
TAIL = ["", " Id. at 5.", " Then 2 F.2d 2 (2005) x.", " The court then cited 2 F.2d 2 again."]


_DB_EX = None


def db_short_examples(per_pattern=8):
    """short-form citations generated (exrex, seeded) from the installed extractors: one group of
    examples per *distinct page sub-pattern* occurring in the database."""
    global _DB_EX
    if _DB_EX is not None:
        return _DB_EX
    import random
    import re

    import exrex

    import eyecite.tokenizers as T

    pats = {}
    for i, e in enumerate(T.EXTRACTORS):
        if not e.extra.get("short"):
            continue
        m = re.search(r"\(\?P<page>", e.regex)
        if not m:
            continue
        j, depth = m.end(), 1
        while depth and j < len(e.regex):
            ch = e.regex[j]
            if ch == "\\":
                j += 2
                continue
            depth += ch == "("
            depth -= ch == ")"
            j += 1
        pats.setdefault(e.regex[m.end() : j - 1], i)
    rnd = random.Random(common.seed())
    state = random.getstate()
    random.seed(common.seed())
    out = []
    try:
        for p, i in pats.items():
            e = T.EXTRACTORS[i]
            inner = e.regex[len("(?:^|[^a-zA-Z0-9])(") : -len(")(?:[^a-zA-Z0-9]|$)")]
            got = []
            for _ in range(per_pattern * 4):
                try:
                    ex = exrex.getone(inner, limit=3)
                except Exception:
                    break
                mm = e.compiled_regex.search(ex)
                if not mm or "\n" in ex or ex in got:
                    continue
                got.append(ex)
            # prefer examples whose page contains punctuation
            got.sort(key=lambda x: -sum(not ch.isalnum() for ch in (e.compiled_regex.search(x).groupdict().get("page") or "")))
            out += got[:per_pattern]
    finally:
        random.setstate(state)
    _DB_EX = out
    return out


def _variants():
    """systematic variations of the hand-written fragments: an extra space before commas, other opening
    brackets glued to the case name, a footnote reference between a supra/id token and its pin cite."""
    pre = list(PRE)
    for p in PRE:
        if p.startswith("(") or " (" in p:
            for br in "[{\"":
                pre.append(p.replace("(", br, 1))
    pre += ["[Foo v. Bar, ", "See [Roe v. Wade, ", "\"Foo v. Bar, "]
    post = list(POST)
    for q in POST:
        if "," in q:
            post.append(q.replace(",", " ,", 1))
        if q.startswith(", at") or q.startswith(" at"):
            post.append(" note 12" + q)
            post.append(" n. 3" + q)
    return pre, post


def corpus():
    pre_v, post_v = _variants()
    for pre in pre_v[len(PRE):]:
        for cite in CITE:
            for post in POST[:12]:
                yield pre + cite + post
    for pre in PRE[:8]:
        for cite in CITE:
            for post in post_v[len(POST):]:
                yield pre + cite + post
    for pre in PRE:
        for cite in CITE:
            for post in POST:
                for tail in TAIL:
                    yield pre + cite + post + tail
    # scan windows around the 300-character limit: plain filler (no stop words, no citations) of every length
    # 280..320 before a short / supra / pre-cited citation
    unit = "quick brown foxes jump over lazy dogs and "
    for L in range(280, 321):
        filler = (unit * 10)[:L]
        for tail in ("Jones Smith, supra, at 5.", "Jones Smith, 515 U.S. at 241.", "Nobelman Smith at 332, 1 U.S. 1 (1999)."):
            yield filler + tail
    for cite in db_short_examples():
        for pre in ("", "See ", "Adarand, "):
            for post in POST + [" and the cases cited there.", ", and 5 (x)"]:
                yield pre + cite + post


def oracle_text(text, tokenizer=None):
    """C02 / C17 / C18 / C04 clauses evaluated concretely on get_citations(text)."""
    import datetime

    import eyecite.models as M
    from eyecite import get_citations

    bad = []
    try:
        cs = get_citations(text) if tokenizer is None else get_citations(text, tokenizer=tokenizer)
    except Exception as ex:
        return ["C04:no_exception:" + type(ex).__name__], []
    n = len(text)
    hi = datetime.date.today().year + 1
    prev = None
    for c in cs:
        s0, s1 = c.span()
        f0, f1 = c.full_span()
        p0, p1 = c.span_with_pincite()
        if not (0 <= f0 <= s0 <= s1 <= f1 <= n):
            bad.append("C02:envelope")
        if not text[s0:s1].startswith(c.matched_text()):
            bad.append("C02:span_covers_matched_text")
        pl = getattr(c.metadata, "plaintiff", None)
        if pl and c.full_span_start is not None and not text[f0:].startswith(pl):
            bad.append("C01:full_span_starts_at_extracted_plaintiff")
        par = getattr(c.metadata, "parenthetical", None)
        if isinstance(par, str) and par and isinstance(c, M.FullCitation) and (par + ")") not in text[f0:f1]:
            bad.append("C01:full_span_covers_the_closing_parenthesis_of_its_parenthetical")
        if not (p0 <= s0 and s1 <= p1 and 0 <= p0 and p1 <= n):
            bad.append("C02:pincite_span_contains_span")
        pin = getattr(c.metadata, "pin_cite", None)
        if pin and not isinstance(c, (M.FullLawCitation, M.FullJournalCitation)) and pin not in text[p0:p1]:
            bad.append("C02:pincite_span_contains_pin_cite_text")
        joint = (f0, f1)
        if prev is not None and isinstance(c, M.FullCaseCitation) and isinstance(prev, M.FullCaseCitation) and c.full_span_start is not None and c.full_span_start == prev.full_span_start:
            joint = (min(f0, prev.full_span()[0]), max(f1, prev.full_span()[1]))
        for fld in ("pin_cite", "year", "plaintiff", "defendant", "antecedent_guess", "extra", "publisher", "month", "day", "volume", "parenthetical"):
            v = getattr(c.metadata, fld, None)
            if fld == "parenthetical" and not isinstance(c, M.FullCitation):
                continue
            if isinstance(v, str) and v and v not in text[joint[0] : joint[1]]:
                bad.append(f"C17:{fld}_inside_full_span")
        y = getattr(c, "year", None)
        if y is not None:
            ty = getattr(c.metadata, "year", None) or ""
            if not (1600 <= y <= hi) or not ty[:4].isdigit() or int(ty[:4]) != y:
                bad.append("C18:numeric_year_in_range_and_equals_text")
        if isinstance(c, M.FullCaseCitation):
            prev = c
    return sorted(set(bad)), cs


def search_corpus(prefixes, limit=3):
    """concrete texts on which the real code violates a clause with one of the given prefixes."""
    hits = []
    for t in corpus():
        bad, cs = oracle_text(t)
        bad = [b for b in bad if any(b.startswith(p) for p in prefixes)]
        if bad:
            hits.append((t, bad))
            if len(hits) >= limit:
                break
    return hits


# ---------------------------------------------------------------- property drivers
QUICK_PARTS = ["post", "defn", "pre", "short", "supra", "id", "law", "journal", "par", "ref"]
PREFIX = {"C01": ["C01:"], "C03lemma": ["C03lemma:"], "C02": ["C02:"], "C17": ["C17:", "lemma:"], "C04": ["C04:"], "C18": ["C18:"], "C19": ["C19:"]}


def explore_parts(rep, pid, parts=None):
    quick = rep.tier == "quick"
    W = 2 if quick else 3
    findings = []
    tot = {}
    for part in parts or QUICK_PARTS:
        params = {"part": part, "W": W if part != "post" else (2 if quick else 3)}
        if part == "mono":
            params["W"] = 1 if quick else 2
        agg = common.explore_split("vf.harness.c02", params, depth=4, timeout=7200)
        rep.merge_explore(part, agg)
        findings += [(part, f) for f in agg["findings"]]
        for k, v in agg["verdicts"].items():
            tot[k] = tot.get(k, 0) + v
        if agg["paths"] == 0 and not agg["errors"]:
            rep.inconc(f"{part}: no feasible path")
    if pid in ("C17", "C02") and parts is None:
        # the same writers with scan windows that reach the 300-character limit (truncation branch)
        for part in (("pre", "short", "id", "journal") if quick else ("pre", "short", "supra", "id", "journal")):
            agg = common.explore_split("vf.harness.c02", {"part": part, "W": 1 if part == "short" and quick else 2, "long": True}, depth=4, timeout=7200)
            rep.merge_explore(part + "_long_window", agg)
            findings += [(part, f) for f in agg["findings"]]
            for k, v in agg["verdicts"].items():
                tot[k] = tot.get(k, 0) + v
    if pid in ("C17", "C02"):
        agg = common.explore_split("vf.harness.c02", {"part": "paren", "N": 5 if quick else 7}, depth=4)
        rep.merge_explore("process_parenthetical_lemma", agg)
        findings += [("paren", f) for f in agg["findings"]]
        for k, v in agg["verdicts"].items():
            tot[k] = tot.get(k, 0) + v
    pref = PREFIX[pid]
    n_ob = sum(v for k, v in tot.items() if any(k.startswith(p) for p in pref))
    n_ok = sum(v for k, v in tot.items() if any(k.startswith(p) for p in pref) and k.endswith(":valid"))
    rep.oblige(n_ok)
    rep.oblige(n_ob - n_ok, ok=False)
    rep.distinct = rep.evaluations
    return [(part, f) for part, f in findings if any(f["clause"].startswith(p) for p in pref)], W


def settle(rep, pid, findings, concrete_prefixes):
    """model-guided replay: a symbolic counter-model is confirmed by finding a concrete text of the
    corpus on which the real code violates the same clause family."""
    if not findings:
        return
    bad_unknown = [f for _, f in findings if f["verdict"] != "cex"]
    for f in bad_unknown[:3]:
        rep.inconc(f"{f['clause']}: solver verdict {f['verdict']}")
    cex = [(p, f) for p, f in findings if f["verdict"] == "cex"]
    if not cex:
        return
    rep.replays += 1
    hits = search_corpus(concrete_prefixes)
    if not hits:
        # counter-models of the process_parenthetical lemma carry a parenthetical text: write it (and its
        # blank-normalised variants) after a full citation and ask the real get_citations
        extra = []
        for p, f in cex:
            t = (f.get("witness") or {}).get("text")
            if p == "paren" and isinstance(t, str):
                blank = "".join(" " if ch.isspace() else ch for ch in t)
                for v in (t, blank, "  " + blank.strip() + "x", blank.strip() + "x  ", "  " + blank, blank + "  "):
                    for tail in ("", " Then 2 F.2d 2 (2005) x."):
                        extra.append(f"Foo v. Bar, 1 U.S. 1 (1999) ({v}){tail}")
        for t in dict.fromkeys(extra):
            bad, cs = oracle_text(t)
            bad = [b for b in bad if any(b.startswith(q) for q in concrete_prefixes)]
            if bad:
                hits.append((t, bad))
                if len(hits) >= 3:
                    break
    if hits:
        for t, bad in hits:
            rep.violation(f"get_citations({t!r}) violates {bad}  (symbolic counter-models: {sorted({f['clause'] for _, f in cex})[:4]})", {"kind": "text", "text": t})
    else:
        rep.spurious += len(cex)
        for p, f in cex[:4]:
            rep.inconc(f"{f['clause']}: counter-model found by the solver but no text of the replay corpus reproduces it on the real code: {f['witness']}")


def common_notes(rep, W):
    rep.bounds.append(f"window of <= {W} document pieces on the scanned side of the citation token (piece kinds {PIECE_KINDS}), text length n <= {MAXN} so the 300-character scan limit is not reached; offsets symbolic")
    rep.assumptions.append("plain words contain no line break (every newline is a ParagraphToken, C12), so `$` in a backward scan means the end of the scanned text")
    rep.bounds.append("additionally pre/short/supra/id/journal with texts up to 900 characters, so that the 300-character truncation of match_on_tokens is explored (window of <= 2 pieces)")
    rep.outside += ["BACKWARD_SEEK (28 words) being reached; the 300-character truncation for the writers other than pre/short/supra/id/journal", "what the regex engines capture beyond the contract (span inside subject, anchors, AST-derived group facts): exact captures are decided only in C01's short-context clause", "markup mode offsets (C19)"]
    rep.stubs += [
        "regex.search on document text: None or a match inside the subject; ^/$ of match_on_tokens pin start/end; each named group None or a slice of the match; facts read off the pattern AST (group starts at match start, group width bounds) are added",
        "process_parenthetical: None / argument / proper prefix (proved by the lemma harness on <= 5..7 symbolic characters)",
        "get_court_by_paren: returns a court id (not document text)",
        "int() on a year slice: a value determined by the slice, 0..9999 when the slice has 4 characters",
        "helpers._highest_valid_year symbolic >= 2025",
    ]
    n_short, bad = short_page_fact()
    rep.sections["short_extractors_page_suffix_fact"] = {"short_extractors": n_short, "page_not_suffix": len(bad), "note": "both shapes are explored by the short-form harness"}
    rep.assumptions.append("a page group that does not end where its token ends is not textually the token's suffix either")


REGRESSION = {
    "C02": ["See 1 U.S. at 5 foo bar.", "Foo\tv. Bar, 1 U.S. 1", "Foo\nv. Bar, 1 U.S. 1"],
    "C17": ["1 U.S. 1 (1999). The court then cited 2 F.2d 2 again", "See 2019 CO at 12M, 15. Foo", "See 12 Lab. Cas. (CCH) at 123A, 125. Foo"],
    "C18": ["Foo v. Bar (2100) 1 U.S. 1"],
    "C04": ["1 Minn. L. Rev. ___. Id. at 5."],
}


def run_property(rep, pid):
    findings, W = explore_parts(rep, pid)
    common_notes(rep, W)
    settle(rep, pid, findings, {"C02": ["C02:"], "C17": ["C17:"], "C04": ["C04:"], "C18": ["C18:"]}[pid])
    if pid == "C02":
        # the offsets refer to the text the tokenizer was given: Document.tokenize must hand over its own text
        from vf.harness import c12

        agg_d = common.explore_split("vf.harness.c12", {"lemma": "document"}, depth=2, procs=1)
        rep.merge_explore("document_tokenize", agg_d)
        n_ok = sum(v for k, v in agg_d["verdicts"].items() if k.endswith(":valid"))
        rep.oblige(n_ok)
        rep.oblige(sum(agg_d["verdicts"].values()) - n_ok, ok=False)
        if any(f["verdict"] == "cex" for f in agg_d["findings"]):
            hit = None
            for t in c12.PROBES:
                rep.replays += 1
                bad, cs = oracle_text(t)
                bad = [b for b in bad if b.startswith("C02")]
                if bad:
                    hit = (t, bad)
                    break
            if hit:
                rep.violation(f"get_citations({hit[0]!r}) violates {hit[1]} (Document.tokenize does not give the tokenizer the document's own text)", {"kind": "text", "text": hit[0]})
            else:
                rep.inconc("Document.tokenize does not hand its own plain text to the tokenizer, but the probe texts show no offset/text mismatch")
    for t in REGRESSION.get(pid, []):
        rep.replays += 1
        bad, cs = oracle_text(t)
        bad = [b for b in bad if b.startswith(pid)]
        if bad:
            rep.violation(f"get_citations({t!r}) violates {bad}", {"kind": "text", "text": t})
    titles = {
        "C02": "0 <= full start <= span start <= span end <= full end <= len(text), span starts at the token and covers it, the pin-cite span contains the span and the pin-cite text",
        "C17": "every textual metadata value is a slice of the text inside the citation's full span (or the joint extent of citations starting at the same place)",
        "C04": "no path of the extraction helpers ends in an exception",
    }
    return rep.finish(
        explanation=f"Path-exhaustive symbolic execution of the real extraction helpers (one harness per writer of span fields) on a symbolic window of document pieces; per path: {titles[pid]} - z3 validity queries over the symbolic cut points; solver counter-models are confirmed by a model-guided search of a concrete replay corpus on the real get_citations.",
        technique="symbolic execution of the Python source (AST interpreter) + z3 (LIA) validity queries per path, regex engines replaced by contract stubs with AST-derived facts",
    )


def check(rep):
    return run_property(rep, "C02")


def fold_into_c03(rep):
    """the span lemma C03's input envelope rests on: a short/supra/id span never reaches the next special
    token, and a short citation's full span is its antecedent words plus its span."""
    import logging

    from vf.harness import c03

    findings, W = explore_parts(rep, "C03lemma", parts=["short", "supra", "id", "mono"])
    cex = [f for _, f in findings if f["verdict"] == "cex"]
    for _, f in findings:
        if f["verdict"] != "cex":
            rep.inconc(f"{f['clause']}: solver verdict {f['verdict']}")
    if not cex:
        return
    logging.disable(logging.WARNING)
    rep.replays += 1
    hits = 0
    for t in corpus():
        bad, got = c03.text_oracle(t)
        if bad:
            rep.violation(f"get_citations({t!r}) -> {got}: {bad}  (symbolic counter-models: {sorted({f['clause'] for f in cex})})", {"kind": "text", "text": t})
            hits += 1
            if hits >= 3:
                break
    logging.disable(logging.NOTSET)
    if not hits:
        rep.spurious += len(cex)
        rep.inconc(f"span lemma violated symbolically but no corpus text reproduces an overlap on the real code: {cex[0]['witness']}")


def fold_into_c18(rep, findings_out):
    """C18 clause (b): year-assignment sites."""
    findings, W = explore_parts(rep, "C18", parts=["post", "defn", "law", "journal", "par"])
    settle(rep, "C18", findings, ["C18:"])


def replay_file(path):
    import json

    r = json.load(open(path))["replay"]
    bad, cs = oracle_text(r["text"])
    print(bad, [(type(c).__name__, c.span(), c.full_span()) for c in cs])
    return 1 if bad else 0
