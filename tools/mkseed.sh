#!/bin/bash
# tools/mkseed.sh <name> : store the current uncommitted diff of /repo as seeded/<name>/patch.diff and restore /repo
set -e
d=/verif/seeded/$1; mkdir -p $d
git -C /repo diff > $d/patch.diff
git -C /repo checkout -- .
[ -s $d/patch.diff ] || { echo "empty diff"; exit 1; }
echo "$d/patch.diff: $(grep -c '^[+-][^+-]' $d/patch.diff) changed lines"
