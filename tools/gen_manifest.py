#!/usr/bin/env python3
"""Regenerates /verif/MANIFEST.json from the table below (kept in one place so the
manifest, the not_applicable list and the checks never drift apart)."""
import json
import os
import subprocess

ROOT = os.path.dirname(os.path.dirname(os.path.abspath(__file__)))

SYMEX = "symbolic execution of the repository's Python source (AST interpreter, z3 linear integer arithmetic), path-exhaustive within stated structure bounds, counter-models replayed on the real code"
REX = "regular-language inclusion/equivalence decided by z3's regex solver on patterns translated from the live extractor objects (no length bound)"

CHECKS = {
    "C12": dict(
        engine="symex",
        category="other",
        text="Bounded symbolic verification: every feasible path of the real Tokenizer.tokenize/merge source on K arbitrary candidate tokens (offsets, kinds and order symbolic, text length unbounded) is explored and the four clauses of C12 are discharged by z3 on each; this is a bounded proof in the number of interacting candidate tokens, not sampling.",
        note="Bound: K=2 plus the K=3 slice over {nominative citation, ordinary citation, section mark} (quick) / K=3 over all nine kinds (thorough) candidate tokens. Trusted: the AST interpreter (validated against CPython on the repo's test strings each run), z3, the append_text summary (proved separately on <=6 symbolic characters). What the extractors match is outside (C13/C14).",
        technique=SYMEX,
        design_ref="DESIGN.md section 3, C12",
    ),
}

CHECKS["C13"] = dict(
    engine="rex",
    category="other",
    text="Unbounded regular-language verification by SMT: for each of the ~6,800 installed extractors, 'every text the pattern matches contains (after the tokenizer's own text transformation) a filter word registered for it' is one emptiness query decided by z3's regex solver for texts of any length; plus structural checks that a tokenizer built on a sub-list only ever selects members of that sub-list.",
    note="Trusted: z3's sequence/regex theory, the re._parser AST -> z3 translation (validated each run against the real regex engine on concrete members/non-members), pyahocorasick's contract (iter reports every added word that occurs). Alphabet: code points up to U+2FFFF, extended to all of Unicode by a recorded class-signature argument. Custom extractors outside the installed list are outside the inclusion queries; arbitrary sub-lists are covered structurally for 5 sampled shapes and symbolically (real __post_init__/get_extractors on <=2/3 abstract extractors over the filter words wa, wb, wawb with the automaton's iter/iter_long contract).",
    technique=REX,
    design_ref="DESIGN.md section 3, C13",
)

CHECKS["C09"] = dict(
    engine="symex",
    category="other",
    text="Bounded symbolic verification: every feasible path of the real annotate_citations / SpanUpdater / maybe_balance_style_tags / wrap_html_tags source over symbolic spans, diff scripts with unbounded amounts, all three tag modes and both diff engines; on each path 'output minus the inserted sentinels == target text' is a z3 validity query on slices of the symbolic text; counter-models are realised as concrete plain/source texts (tags placed by a model-guided search in skip/wrap mode) and replayed.",
    note="Bounds: <=2 annotations, <=3 diff blocks (quick) / <=4 (thorough); skip mode: one style-tag kind present in the text (quick). The inserted strings are sentinels containing backslash-digit, backslash-letter, space and regex metacharacters. Stubs (contracts): diff engines return any alternating valid script; is_balanced_html arbitrary boolean; regex finditer on the text by span contract; re.sub applies the real replacement (template parsed by CPython's parse_template, or the interpreted replacement function) around <=1/2 matches. Trusted: interpreter (self-tested against CPython each run), z3.",
    technique=SYMEX,
    design_ref="DESIGN.md section 3, C09/C10",
)
CHECKS["C10"] = dict(
    engine="symex",
    category="other",
    text="Same engine and harness as C09 with the C10 clauses: without a source each non-empty span not overlapped by an earlier one is enclosed exactly once as before+text[s:e]+after, annotations appear in span order; with equal/insert-only scripts (forced alignment) the annotation encloses exactly source[s+ins(s) : e+ins(e-1)]; SpanUpdater.update is monotone and within the source for every script and both bisect sides.",
    note="Bounds: <=3 annotations without source, <=2 with; <=4 diff blocks; unchecked mode (skip may omit and wrap splits annotations by design). The forced-alignment clause needs the minimal script, which only fast_diff_match_patch in its exact configuration (timelimit=0, checklines=False, cleanup='No') guarantees: the stub checks the arguments of the call (clause diff_engine_called_in_its_exact_minimal_configuration); for the difflib engine the clause fails on the pinned tree (known finding C10-difflib-not-minimal, replayed and printed as KNOWN-FINDING). The offset-translation harness covers both engines' step generators.",
    technique=SYMEX,
    design_ref="DESIGN.md section 3, C09/C10",
)

_RES_NOTE = "Bounds: lists of 3 citations over 9 abstract kinds (quick C07/C08 add the 4-citation slices over {full case, short} and {full case, supra}; thorough adds optional party names / reference name fields at length 3 and every 4-citation list over the 5-6 kinds the property is about - all 9 kinds at length 4 are 1.7 million paths, 67 minutes, per property); volumes, reporters, guessed editions, pages, party names, antecedents, pin cites and token indexes symbolic (integers unbounded). Stubs: hash_sha256 injective; strip_punct identity (names without punctuation); re.match on the pin cite by contract - the last two are discharged by lemmas run on the real functions with character-level symbolic strings (pin-cite lemma: _has_invalid_pin_cite on <=6/8 arbitrary characters and, with the first page as text, on every string of <=2/3 characters accepted by the database's page patterns; strip_punct lemma on <=2/3 characters). Trusted: interpreter (self-tested on extracted documents each run), z3, the reference model in vf/harness/c06.py."
CHECKS["C06"] = dict(
    engine="symex", category="other",
    text="Bounded symbolic verification of the real resolve_citations and citation/Resource hash+eq source: on every feasible path the mapping's values are disjoint ordered sub-sequences of the input led by a full citation, every full citation is under exactly one resource, unknown citations never appear, and two full citations share a resource iff the specification equality (volume, page, normalised reporter, no placeholder page - for journal citations too) holds - a z3 validity query per path; a history phase corrects a resolved citation's page through its public groups and resolves again (the grouping must follow).",
    note=_RES_NOTE, technique=SYMEX, design_ref="DESIGN.md section 3, C06-C08",
)
CHECKS["C07"] = dict(
    engine="symex", category="other",
    text="Same exploration as C06; on every path each short/supra/reference citation is attached to a resource only if an independent reference model (z3 formulas over the same symbolic attributes) says that resource is the unique admissible one, and left out otherwise; id. follows only its predecessor's resource and only inside the page window [p, p+150] with a numeric pin cite and a non-placeholder case page. The pin-cite test itself is decided on text: 'rejected iff the pin cite does not start (after an optional at) with a decimal number or the number lies outside [p, p+150]' for arbitrary characters.",
    note=_RES_NOTE + " The placeholder-page rule is applied to case citations (journal/law citations with a None page do not block id.), as the code and the property's kind alphabet have it.", technique=SYMEX, design_ref="DESIGN.md section 3, C06-C08",
)
CHECKS["C08"] = dict(
    engine="symex", category="other",
    text="Same exploration as C06 with self-composition: in the same path every prefix of the list is resolved too and must equal the restriction of the full resolution (same groups, members, order), and no citation sits under a resource whose first full citation comes later.",
    note=_RES_NOTE, technique=SYMEX, design_ref="DESIGN.md section 3, C06-C08",
)

CHECKS["C16"] = dict(
    engine="symex", category="other",
    text="Bounded symbolic verification of the real __hash__/__eq__/corrected_reporter/guess_edition/Resource source on pairs (quick) / triples (thorough) of citations with symbolic volume/page/reporter, 7 candidate-edition configurations and poisoned context: equivalence laws, ==/hash/Resource agreement and 'equal iff same class, volume, page, normalised reporter and no placeholder' are z3 validity queries per path; case citations carry the database's other regex groups (year, nominative reporter/volume) with arbitrary values that must not matter; normal-form clause on citations V R P with arbitrary digits and page markers (character-level symbolic strings): corrected_citation() is V + canonical reporter + standardised page, is a fixed point, and the citation it is parsed into is == / hash-equal to the original; plus an exhaustive concrete sweep of reporters-db's unambiguous variations through the real extractor.",
    note="Stubs: hash_sha256 injective; id() distinct. Outside: that the extractor captures the three components of a normal-form text (C01's recognisability clauses), normal forms of other shapes, years (C18), supra/reference equality. The reporters-db sweep is enumeration of data, reported separately from the solver result.",
    technique=SYMEX, design_ref="DESIGN.md section 3, C16",
)
CHECKS["C18"] = dict(
    engine="symex", category="other",
    text="Bounded symbolic verification of the real get_year, guess_edition, Edition.includes_year and disambiguate_reporters source with symbolic years, edition date ranges (or None) and clock: the guess is a candidate, is made iff there is one candidate or a year singles one out, the numeric year is in [1600, bound] and equals the text (also decided on year *text*: get_year on every string of <= 4/5 arbitrary characters never raises, returns only in-range years, and four decimal digits of any script give their value), disambiguation keeps exactly the non-resource or guessed citations in order; the year-assignment sites and the remove_ambiguous tail are folded in from the extraction and filter harnesses.",
    note="Bounds: <=3 (quick) / <=4 (thorough) candidate editions, <=3/4 citations. Stubs: datetime.now().year and helpers._highest_valid_year symbolic. Parallel citations: is_parallel_citation keeps 'numeric year == value of the textual year, in range' (pre-state invariant assumed for both citations). Outside: which edition a year inherited from a parallel citation selects.",
    technique=SYMEX, design_ref="DESIGN.md section 3, C18",
)

CHECKS["C03"] = dict(
    engine="symex", category="other",
    text="Bounded symbolic verification of the real filter_citations/overlapping_citations source and of get_citations' own tail (dispatch, reference collection, filter) on <=3 (quick) / <=4 (thorough) citations with symbolic spans and full spans: strictly increasing span order, pairwise disjoint spans, every non-reference kept, nothing invented, filter idempotent - z3 validity queries per path under a stated input envelope; quick adds the slice of 4-citation lists that start with a full case citation and end with a reference.",
    note="The envelope is part of the claim and listed in the evidence: non-reference spans disjoint in token order (C12 + the C02 span lemma), short/id full spans cross no other special token, references start after a full case citation and never coincide character-for-character with another citation, full-span starts of full case citations monotone (lemma C03lemma:mono, discharged in the same run by symbolic execution of add_defendant/add_pre_citation on two citations sharing a window).",
    technique=SYMEX, design_ref="DESIGN.md section 3, C03",
)

CHECKS["C20"] = dict(
    engine="symex", category="other",
    text="Bounded symbolic verification: (1) the real clean_text on all step lists of length <=3 over known names, an unknown name and callables, with abstract cleaners and symbolic text emptiness (sequential application; unknown step raises ValueError); (2) the three real text cleaners on every string of <=8 (quick) / <=12 (thorough) symbolic code points, their re.sub executed by a priority-exact symbolic regex matcher: idempotent, exactly the runs replaced, all other characters kept in order - against a character-level specification independent of the code's patterns.",
    note="Outside: longer strings; the html cleaner clause (lxml is C code: not applicable to this technique, stated in the evidence). Trusted: the symbolic matcher (vf/symre.py; class tables from the runtime; validated against the real regex engine in C02's self-test), z3.",
    technique="symbolic execution of the Python source over bounded symbolic character arrays with a symbolic regex matcher; z3 decides each character-class test",
    design_ref="DESIGN.md section 3, C20",
)

_EXT_NOTE = "Bounds: windows of <=2 (quick) / <=3 (thorough) document pieces on the scanned side of the token, text length <= 299 (the 300-character and 28-word scan limits are not reached). Stubs: regex.search by span contract + facts read off the real pattern AST (group order, width, start-at-match-start, always-participates, nullable); process_parenthetical by its lemma (proved on <=5..7 symbolic characters); int() of a year slice. Solver counter-models are confirmed on the real get_citations by a model-guided search of a concrete corpus (~50k texts incl. exrex-generated short forms for every distinct page pattern of the database) - a counter-model the corpus cannot reproduce is reported as inconclusive, never as a violation."
CHECKS["C02"] = dict(
    engine="symex", category="other",
    text="Bounded symbolic verification of the offset arithmetic of every writer of span fields (add_post_citation, add_defendant, add_pre_citation, _extract_shortform/_supra/_id_citation with extract_pin_cite, add_law_metadata, add_journal_metadata, CitationBase.span/full_span/span_with_pincite) on a symbolic window of document pieces: 0 <= full start <= span start <= span end <= full end <= len, span starts at the token and covers it, pin-cite span contains span and pin-cite text - z3 validity queries over symbolic cut points on every path.",
    note=_EXT_NOTE + " Outside: markup-mode offsets (C19), law/journal pin-cite spans (those kinds record none).", technique=SYMEX, design_ref="DESIGN.md section 3, C02",
)
CHECKS["C17"] = dict(
    engine="symex", category="other",
    text="Same exploration as C02 with provenance: every string stored in metadata is a slice (lo, hi) of the symbolic text, so 'inside the citation's full span' is an inequality decided by z3 on every path; plus is_parallel_citation on two neighbours with arbitrary (possibly None) full-span starts: copied parties/year lie in the own or joint extent of citations that start together.",
    note=_EXT_NOTE + " The parenthetical clause is claimed for full citations only (as the property states).", technique=SYMEX, design_ref="DESIGN.md section 3, C17",
)
CHECKS["C04"] = dict(
    engine="symex", category="other",
    text="PARTIAL (pure-Python layers): 'no feasible path ends in an exception' asserted on the symbolic explorations of the extraction helpers, Tokenizer.tokenize, resolve_citations and annotate_citations/SpanUpdater (and HyperscanTokenizer's offset table / cache loader) under contract stubs for the C libraries; plus the id. pin-cite test and strip_punct on character-level symbolic strings (arbitrary Unicode); exception paths are replayed on the real code.",
    note="Not decided: exceptions or non-termination inside regex/hyperscan/lxml/pyahocorasick/diff-match-patch on hostile strings; get_citations glue beyond the interpreted helpers. Bounds as in C02, C06, C09, C12.", technique=SYMEX, design_ref="DESIGN.md section 3, C04",
)

CHECKS["C14"] = dict(
    engine="symex+rex", category="other",
    text="PARTIAL. Decided on the real source: (a) the byte->character offset table of HyperscanTokenizer.extract_tokens on texts with symbolic UTF-8 widths and arbitrary byte hits (aligned+confirmed hits yield exactly one token with the right character offsets, others none, nothing raises); (b) every pattern handed to hyperscan has the same Python-level language as the extractor's own pattern (z3 regex equivalence for each pattern convert_regex changes; flags mapped); (c) hyperscan_db returns a loaded or freshly compiled database and does not raise for any documented loadb outcome; (e) for group 1 of every extractor, the UTF-8 bytes of every string the Python pattern matches are matched by the byte-level reading Hyperscan gives the converted pattern (bytes as latin-1, ASCII-only classes) - z3 regex inclusion per extractor, any length, over ASCII + 10 representative multi-byte characters; witnesses replayed on both real tokenizers. Two known findings (multi-byte neighbour; 38 patterns whose byte-level reading rejects a multi-byte character inside the token) are replayed and printed as KNOWN-FINDING.",
    note="NOT decided: which byte ranges Hyperscan's matcher actually reports for a pattern it accepted (C code outside this technique; clause (e) decides what it is asked to match, under the stated model of its parser), and the multi-byte characters outside the representative alphabet. Bounds: <=3/4 characters, <=2/3 hits. The old-signature (hyperscan<0.5) TypeError fallback is outside. Concrete add-ons (not solver results): in-domain differential texts, damaged cache files.",
    technique="symbolic execution of the Python source + z3; regex equivalence by z3's regex solver; contract stubs for the hyperscan module",
    design_ref="DESIGN.md section 3, C14",
)

CHECKS["C15"] = dict(
    engine="symex", category="other",
    text="PARTIAL (hash-randomisation clause + frame condition). With `set` iteration order modelled as a symbolic permutation (and iteration over any hash set met by the interpreted code permuted likewise), the real get_extractors -> extract_tokens -> tokenize, CitationToken.merge -> token_is_from_nominative_reporter / ResourceCitation.__hash__, and the reference-pattern construction are executed twice per path (identity order vs arbitrary order) and their results compared; the __hash__ of every value-hashed citation kind and of Resource is executed under two symbolic str-hash seeds (builtin hash of a str = uninterpreted function of seed and value) and must agree; a dependence is confirmed by running the real get_citations in fresh processes with different PYTHONHASHSEED values. The tokenizer object is built by the interpreted __post_init__ and a tokenize call must leave its attributes and their containers unchanged (frame condition); a counter-model is confirmed by call sequences in one process against fresh processes, then by 8 threads sharing the default tokenizer.",
    note="NOT decided: thread schedules (no concurrency model of CPython in this technique; shared state written during a call is detected by the frame condition, an actual race only if the thread replay exposes it) and cross-call history beyond the frame condition. merge()'s set()-based de-duplication is order dependent in principle; an exhaustive sweep of the installed reporters-db shows no merge group where that can change a result (recorded as latent, outside the claim). Candidate-edition tuples are compared as sets.",
    technique="symbolic execution of the Python source with set iteration order as a symbolic permutation (two runs per path, self-composition); subprocess replay with different hash seeds",
    design_ref="DESIGN.md section 3, C15",
)

CHECKS["C19"] = dict(
    engine="symex", category="other",
    text="PARTIAL. Decided on the real source: (a) get_citations' own tail (dispatch, reference collection, parallel detection, filter) executed with and without reference citations on the same prepared citations gives the same non-reference citations, order and parallel comparisons (self-composition per path); (b) every reference produced by extract_pincited_reference_citations starts at or after its citation's span end, has 0 <= full start <= start <= end <= full end <= len(text) and its token text is the slice at its span; (c) find_reference_citations_from_markup with both real SpanUpdaters built from a symbolic diff script and its inverse gives references with valid plain-text offsets that do not start before their citation; (d) the markup search pattern and the name-pincite pattern the code builds for a citation (captured from the interpreted functions) only match strings that contain a party name that passes the name-validity rule, case-sensitively - regular-language inclusion by z3, no length bound, for two party configurations (valid names; valid next to rejected names).",
    note="NOT decided: the html cleaning step (lxml) and so the whole-pipeline equality with get_citations(clean_text(markup)); the name-validity rule itself (is_valid_name, DISALLOWED_NAMES) is taken as given - what is decided is that only names passing it are searched for; concrete markup documents serve as the replay corpus for solver counter-models.",
    technique=SYMEX, design_ref="DESIGN.md section 3, C19",
)

CHECKS["C01"] = dict(
    engine="rex+symex", category="other",
    text="PARTIAL. Decided: (1) for every reporter/law/journal string of the installed database that uses the default template, some extractor listing it recognises V R P (and V R at P) for every volume [1-9]\\d* and page \\d+ between non-alphanumeric neighbours - regular-language inclusion by z3, no length bound; (2) the reporter group's language is exactly the listed strings; (3) short-form extractors are derived from full ones; (4) class wiring over edition-source subsets: _extract_full_citation picks the class and both _extract_full_citation and _extract_shortform_citation hand the token's groups and candidate editions on; (5) the real POST_SHORT/POST_FULL patterns, run by a priority-exact symbolic matcher on documented pin-cite contexts (plain, range and page:line shapes) with arbitrary digits, capture exactly the written pin cite (matcher validated against the real regex engine on every path); (6) the full span starts at the extracted plaintiff (symbolic add_defendant); (7) the full span of a full case/law/journal citation covers its parenthetical and the closing parenthesis; (8) on year contexts [pin] ( [court] YYYY ) with arbitrary digits and court characters POST_FULL_CITATION_REGEX captures exactly the written pin cite, court and year; (9) the short-form and supra antecedent patterns, anchored as match_on_tokens runs them, capture exactly the written name (and supra volume).",
    note="NOT decided: captures on longer contexts, party names, court lookup (courts-db table), 'exactly one citation per written citation' under overlapping patterns, full-span ends beyond (7) - these need the capture semantics of the C regex engines over long windows. Reporter strings with custom templates are outside (1)/(2).",
    technique="regular-language inclusion by SMT (z3 seq/re) per extractor + symbolic regex matching over bounded symbolic character arrays + symbolic execution of the Python source",
    design_ref="DESIGN.md section 3, C01",
)
CHECKS["C05"] = dict(
    engine="symex", category="other",
    text="PARTIAL (resolution half). Bounded symbolic verification of the real resolver on scenario lists (cases with pairwise non-overlapping party names, each cited in full once or repeatedly; short/supra references written to a ghost intended antecedent; id. with no/numeric/non-numeric pin cite): exactly one resource per case, every reference that is unambiguous by the property's criteria is grouped with its intended case, an id. with an impossible pin cite or after an unresolved citation is left out - z3 validity queries per path, counter-models replayed as real citation objects.",
    note="NOT decided: that extraction produces those citation objects from running text (needs the regex engines end to end; its pieces are C01/C02/C17). Bounds: lists of 4 citations over full/short/supra/id (thorough adds 5 citations over full/short/id); a case may be cited in full repeatedly. Stubs as in C06.",
    technique=SYMEX, design_ref="DESIGN.md section 3, C05",
)

PENDING = {}

NOT_APPLICABLE = {
    "C11": "Well-formedness is judged, in the property and inside is_balanced_html itself, by libxml2 (a C parser); solver-based checking of the Python source cannot encode it, any verdict would be about a model of XML rather than the code. The text-content clause is covered by C09.",
}


def main():
    props = [json.loads(l) for l in open(os.path.join(ROOT, "properties.jsonl"))]
    ids = [p["id"] for p in props]
    checks = []
    for pid in ids:
        if pid not in CHECKS:
            continue
        c = CHECKS[pid]
        checks.append(
            {
                "property_id": pid,
                "quick_cmd": f"./check {pid} --tier quick",
                "thorough_cmd": f"./check {pid} --tier thorough",
                "evidence_file": f"evidence/{pid}.json",
                "replay_cmd_template": f"./check {pid} --replay {{path}}",
                "engine": c["engine"],
                "level_claimed": {"category": c.get("category", "other"), "text": c["text"], "design_ref": c["design_ref"]},
                "level_note": c["note"],
                "technique": c["technique"],
            }
        )
    na = []
    for pid in ids:
        if pid in CHECKS:
            continue
        reason = NOT_APPLICABLE.get(pid) or PENDING.get(pid) or "check not built yet in this round (planned in DESIGN.md section 3); not claimed until it runs green"
        na.append({"property_id": pid, "reason": reason})
    try:
        fixes = subprocess.run(["git", "-C", "/repo", "log", "--format=%h %s", "79b24fb..HEAD"], capture_output=True, text=True).stdout.strip().splitlines()
    except Exception:
        fixes = []
    man = {
        "version": 1,
        "setup_cmd": "./bootstrap.sh",
        "hooks": {
            "guard": "EYECITE_VERIF",
            "enable": "no hooks are needed: stubs live in the interpreter; the variable is never read by /repo",
            "baseline_off_cmd": "cd /repo && /venv/bin/python -m pytest -ra -q -p no:cacheprovider --timeout=900 --continue-on-collection-errors",
            "source_commits": [],
            "add_only": True,
        },
        "engines": [
            {"name": "symex", "path": "vf/symex.py", "serves_properties": sorted(p for p, c in CHECKS.items() if "symex" in c["engine"]), "kind_free_text": "AST-level symbolic interpreter of the repository's Python source with z3 (mathematical integers), re-execution DFS, slices-of-one-text string model, contract stubs for C libraries"},
            {"name": "rex", "path": "vf/rex.py", "serves_properties": sorted(p for p, c in CHECKS.items() if "rex" in c["engine"]), "kind_free_text": "python re AST -> z3 regular expressions over the full Unicode alphabet; inclusion/equivalence/emptiness queries"},
        ],
        "checks": checks,
        "notes": "There are no instrumentation hooks in /repo (hooks.source_commits is empty; the guard variable is never read): contract stubs live in the interpreter. The commits on top of the pinned tree are unguarded 'fix:' commits repairing genuine defects (see known_findings.json 'fixed:' lines and DESIGN.md section 4): " + ", ".join(f.split()[0] for f in fixes) + ". Exit codes: 0 holds within bounds, 1 reproduced violation, 2 inconclusive/harness error.",
        "not_applicable": na,
    }
    with open(os.path.join(ROOT, "MANIFEST.json"), "w") as f:
        json.dump(man, f, indent=1)
    print("checks:", [c["property_id"] for c in checks], "n/a:", [n["property_id"] for n in na])


if __name__ == "__main__":
    main()
