"""C09 / C10 — annotation is additive and brackets exactly the cited characters.

Symbolically executes the real source of annotate_citations, SpanUpdater.__init__ /
update / get_diff_steps_builtin, maybe_balance_style_tags and wrap_html_tags.
Symbolic: the length of the texts, M annotation spans in arbitrary list order,
the diff script (K opcode blocks with unbounded amounts), the tag mode and the
diff engine flag.  The inserted before/after strings are distinct sentinels.
"""
import collections

import z3

from vf import common, stubs, symex
from vf.symex import SInt, TStr, lift_int, mval

MODES = ["unchecked", "skip", "wrap"]
OPK = ["equal", "insert", "delete", "replace"]


class OpaqueText:
    """the plain text when a source text is given: only its length is ever needed."""

    def __init__(self, length):
        self.length = length

    def __eq__(self, o):
        return False

    def __ne__(self, o):
        return True

    __hash__ = None

    def __bool__(self):
        return bool(symex.mkbool(lift_int(self.length) > 0))

    def sym_len(self):
        return self.length if isinstance(self.length, SInt) else SInt(lift_int(self.length))


# the inserted strings carry what a careless insertion would mangle: a backslash-digit (group reference in a
# replacement template), a backslash-letter (bad escape), a space and regex metacharacters
def B(j):
    return f"\x01\\{j + 1}\\d .[\x02"


def A(j):
    return f"\x03\\{j + 1}\\d .]\x04"


class H(common.Harness):
    def __init__(self, params):
        super().__init__(params)
        import bisect
        import difflib
        import re

        import eyecite.annotate as AN
        import eyecite.utils as U

        self.AN, self.U = AN, U
        self.M = params["M"]
        self.K = params["K"]  # opcode blocks; 0 = no source text
        self.modes = params.get("modes", MODES)
        self.forced = params.get("forced", False)  # only equal/insert scripts (C10 forced alignment)
        it = self.interp
        self.n = z3.Int("n")  # length of the target text (source if given, else plain)
        self.eng.assume(self.n >= 0)
        it.stubs[AN.logger.warning] = lambda *a, **k: None
        it.stubs[U.is_balanced_html] = self.stub_balanced
        it.stubs[re.finditer] = self.stub_finditer
        it.stubs[re.sub] = self.stub_sub
        import fast_diff_match_patch

        it.stubs[fast_diff_match_patch.diff] = self.stub_dmp
        it.stubs[re.search] = lambda pattern, text, flags=0: (re.search(pattern, text, flags) if isinstance(text, str) else stubs.sym_search(self.eng, pattern, text, flags, n=self.n, tag="rs"))
        it.stubs[difflib.SequenceMatcher] = lambda a=None, b=None, autojunk=True, **k: self
        it.stubs[list] = lambda x=(): x if isinstance(x, stubs.FirstLast) else list(x)

    # -- stubs
    def stub_dmp(self, a, b, timelimit=0, checklines=True, cleanup="Semantic", counts_only=True, **kw):
        """fast_diff_match_patch.diff: a valid script; it is the MINIMAL script only in the exact configuration
        (no time limit, no line-mode pre-pass, no clean-up) - the forced-alignment clause needs that."""
        exact = (not isinstance(timelimit, SInt)) and timelimit == 0 and not checklines and cleanup == "No" and counts_only and not kw
        if not exact:
            self.eng.path_state["inexact_diff"] = {"timelimit": timelimit, "checklines": checklines, "cleanup": cleanup}
        return list(self.ops)

    def get_opcodes(self):
        return list(self.opcodes)

    def stub_balanced(self, text):
        if isinstance(text, str):
            return self.U.is_balanced_html(text)
        b = self.eng.fresh_bool("balanced")
        self.balanced_calls.append(b)
        return self.eng.choose([b, z3.Not(b)]) == 0

    def stub_finditer(self, pattern, text, flags=0):
        return stubs.sym_finditer_first_last(self.eng, pattern, text, flags, n=self.n)

    def stub_sub(self, pattern, repl, text, *a, **k):
        import re

        if isinstance(text, str):
            return re.sub(pattern, repl, text, *a, **k)
        return stubs.sym_sub_wrap(self.eng, pattern, repl, text, self.n, max_matches=1 if self.params.get("quick") else 2)

    # -- run
    def run(self):
        eng = self.eng
        self.balanced_calls = []
        mode = self.modes[eng.choose([z3.Int("mode") == j for j in range(len(self.modes))])] if len(self.modes) > 1 else self.modes[0]
        self.mode = mode
        target = TStr.base(self.n)
        kwargs = {"unbalanced_tags": mode}
        if mode == "skip":
            # bound: which of the three style tags may occur in the text at all
            tags = ["i", "em", "b"]
            allowed = self.params.get("style_tags", 1)
            if allowed < 3:
                act = eng.choose([z3.Int("active_tag") == j for j in range(3)])
                present = {tags[act]} if allowed == 1 else {tags[act], tags[(act + 1) % 3]}
                eng.path_state["absent_literals"] = {f"<{t}>" for t in tags if t not in present} | {f"</{t}>" for t in tags if t not in present}
        if self.K == 0:
            la = self.n
            plain = target
            self.script = None
        else:
            use_dmp = True if self.forced else eng.choose([z3.Bool("use_dmp"), z3.Not(z3.Bool("use_dmp"))]) == 0
            # (forced alignment is claimed for the default engine only: difflib's SequenceMatcher is not a
            # minimal diff - known finding C10-difflib-not-minimal)
            self.use_dmp = use_dmp
            la = z3.IntVal(0)
            lb = z3.IntVal(0)
            ops, opcodes, script = [], [], []
            prev_equal = None
            nblocks = 1 + eng.choose([z3.Int("nblocks") == j for j in range(1, self.K + 1)])
            for i in range(nblocks):
                kinds = [0, 1] if self.forced else [0, 1, 2, 3]
                k = kinds[eng.choose([z3.Int(f"op{i}") == j for j in kinds])]
                is_eq = k == 0
                if prev_equal is not None and prev_equal == is_eq:
                    raise symex.Infeasible()  # both engines return maximal alternating blocks
                prev_equal = is_eq
                a, b = z3.Int(f"amt_a{i}"), z3.Int(f"amt_b{i}")
                a1, b1 = la, lb
                if k == 0:
                    eng.add(a >= 1, b == a)
                    ops.append(("=", SInt(a)))
                elif k == 1:
                    eng.add(a == 0, b >= 1)
                    ops.append(("+", SInt(b)))
                elif k == 2:
                    eng.add(a >= 1, b == 0)
                    ops.append(("-", SInt(a)))
                else:
                    eng.add(a >= 1, b >= 1)
                    ops.append(("-", SInt(a)))
                    ops.append(("+", SInt(b)))
                la = la + a
                lb = lb + b
                opcodes.append((OPK[k], SInt(a1), SInt(la), SInt(b1), SInt(lb)))
                script.append((OPK[k], a, b))
            # an empty source text means "no source text" to annotate_citations (falsy default)
            eng.add(lb == self.n, self.n >= 1)
            self.ops, self.opcodes, self.script = ops, opcodes, script
            plain = OpaqueText(SInt(la))
            kwargs["source_text"] = target
            kwargs["use_dmp"] = use_dmp
        self.la = la
        anns = []
        self.spans = []
        nann = eng.choose([z3.Int("n_annotations") == k for k in range(self.M + 1)]) if self.params.get("fewer", True) else self.M
        for j in range(nann):
            s, e = z3.Int(f"s{j}"), z3.Int(f"e{j}")
            eng.add(0 <= s, s <= e, e <= la)
            anns.append(((SInt(s), SInt(e)), B(j), A(j)))
            self.spans.append((s, e))
        out = self.interp.call(self.AN.annotate_citations, (plain, anns), kwargs)
        return out

    def witness(self, m):
        w = {"mode": self.mode, "n": mval(m, self.n), "la": mval(m, self.la), "spans": [(mval(m, s), mval(m, e)) for s, e in self.spans]}
        if self.script is not None:
            w["script"] = [(k, mval(m, a), mval(m, b)) for k, a, b in self.script]
            w["use_dmp"] = self.use_dmp
        w["balanced_answers"] = [bool(mval(m, b)) for b in self.balanced_calls]
        return w

    def describe(self, kind, out):
        m = self.eng.path_model()
        return {"path_model": self.witness(m) if m is not None else None, "outcome": kind if kind == "exc" else "returned"}

    # -- oracle pieces
    def ins_upto(self, x):
        """source characters inserted at plain offsets <= x (forced-alignment scripts)."""
        tot = z3.IntVal(0)
        pos = z3.IntVal(0)
        for k, a, b in self.script:
            if k == "equal":
                pos = pos + a
            else:
                tot = tot + z3.If(pos <= x, b, 0)
        return tot

    def judge(self, kind, out):
        if kind == "exc":
            return [self.check("no_exception:" + type(out).__name__, False, self.witness)]
        fs = []
        if self.eng.path_state.get("inexact_diff") is not None:
            cfg = self.eng.path_state["inexact_diff"]
            fs.append(self.check("C10:diff_engine_called_in_its_exact_minimal_configuration", False, lambda m: {"diff_config": {k: repr(v) for k, v in cfg.items()}, **self.witness(m)}))
        if not isinstance(out, TStr):
            out = TStr([("lit", out)], self.n) if isinstance(out, str) else None
        if out is None:
            return [self.check("returns_text", False, self.witness)]
        sentinels = {B(j) for j in range(len(self.spans))} | {A(j) for j in range(len(self.spans))}
        body = []
        ok_lits = True
        for a in out.atoms:
            if a[0] == "lit":
                rest = a[1]
                # a literal atom may be several adjacent sentinels
                while rest:
                    for s in sentinels:
                        if rest.startswith(s):
                            rest = rest[len(s) :]
                            break
                    else:
                        ok_lits = False
                        break
            else:
                body.append(a)
        fs.append(self.check("C09:only_sentinels_inserted", z3.BoolVal(ok_lits), self.witness))
        fs.append(self.check("C09:stripped_equals_target", TStr(body, self.n).covers_base(), self.witness))
        # ---- C10
        # split the output at sentinels: sequence of ("B", j) / ("A", j) / slice atoms
        seq = []
        for a in out.atoms:
            if a[0] == "sub":
                seq.append(a)
                continue
            rest = a[1]
            while rest:
                for j in range(len(self.spans)):
                    if rest.startswith(B(j)):
                        seq.append(("B", j))
                        rest = rest[len(B(j)) :]
                        break
                    if rest.startswith(A(j)):
                        seq.append(("A", j))
                        rest = rest[len(A(j)) :]
                        break
                else:
                    rest = ""
        if self.mode == "unchecked" or (self.mode in ("skip", "wrap") and not self.balanced_calls):
            # which annotations must appear: non-empty and not overlapping one that sorts earlier
            for j, (s, e) in enumerate(self.spans):
                earlier_overlap = []
                for i, (s2, e2) in enumerate(self.spans):
                    if i == j:
                        continue
                    before = z3.Or(s2 < s, z3.And(s2 == s, e2 < e), z3.And(s2 == s, e2 == e, i < j))
                    earlier_overlap.append(z3.And(before, e2 > s))
                must = z3.And(e > s, z3.Not(z3.Or(*earlier_overlap)) if earlier_overlap else z3.BoolVal(True))
                occ = [k for k, x in enumerate(seq) if x == ("B", j)]
                if self.script is None:
                    if len(occ) == 1:
                        k = occ[0]
                        # atoms up to the matching A(j)
                        inner = []
                        k2 = k + 1
                        while k2 < len(seq) and seq[k2][0] == "sub":
                            inner.append(seq[k2])
                            k2 += 1
                        closed = k2 < len(seq) and seq[k2] == ("A", j)
                        encl = z3.And(z3.BoolVal(closed), TStr(inner, self.n).covers(s, e))
                    else:
                        encl = z3.BoolVal(False)
                    fs.append(self.check("C10:nonoverlapped_span_enclosed_once", z3.Implies(must, encl), self.witness))
                elif self.forced:
                    if len(occ) == 1:
                        k = occ[0]
                        inner = []
                        k2 = k + 1
                        while k2 < len(seq) and seq[k2][0] == "sub":
                            inner.append(seq[k2])
                            k2 += 1
                        closed = k2 < len(seq) and seq[k2] == ("A", j)
                        lo = s + self.ins_upto(s)
                        hi = e + self.ins_upto(e - 1)
                        encl = z3.And(z3.BoolVal(closed), TStr(inner, self.n).covers(lo, hi))
                    else:
                        encl = z3.BoolVal(False)
                    fs.append(self.check("C10:forced_alignment_encloses_source_chars", z3.Implies(must, encl), self.witness))
            # annotations appear in span order: the B sentinels that occur are ordered like the sorted spans
            order = [x[1] for x in seq if x[0] == "B"]
            conds = []
            for a_, b_ in zip(order, order[1:]):
                (s1, e1), (s2, e2) = self.spans[a_], self.spans[b_]
                conds.append(z3.Or(s1 < s2, z3.And(s1 == s2, e1 < e2), z3.And(s1 == s2, e1 == e2, a_ < b_)))
            fs.append(self.check("C10:annotations_in_span_order", z3.And(*conds) if conds else z3.BoolVal(True), self.witness))
        return fs


def make(params):
    return H(params)


# ---------------------------------------------------------------- offset-translation harness (C10 general clause)
class HU(common.Harness):
    """SpanUpdater alone: for every script and both bisect modes the translation is monotone and in range."""

    def __init__(self, params):
        super().__init__(params)
        import eyecite.annotate as AN

        self.AN = AN
        self.K = params["K"]
        import fast_diff_match_patch

        self.interp.stubs[fast_diff_match_patch.diff] = lambda a, b, **kw: list(self.ops)
        import difflib

        self.interp.stubs[difflib.SequenceMatcher] = lambda a=None, b=None, autojunk=True, **k: self

    def get_opcodes(self):
        return list(self.opcodes)

    def run(self):
        import bisect

        eng = self.eng
        la = z3.IntVal(0)
        lb = z3.IntVal(0)
        ops, script = [], []
        self.opcodes = []
        self.use_dmp = eng.choose([z3.Bool("use_dmp"), z3.Not(z3.Bool("use_dmp"))]) == 0
        prev_equal = None
        nblocks = 1 + eng.choose([z3.Int("nblocks") == j for j in range(1, self.K + 1)])
        for i in range(nblocks):
            k = eng.choose([z3.Int(f"op{i}") == j for j in range(4)])
            is_eq = k == 0
            if prev_equal is not None and prev_equal == is_eq:
                raise symex.Infeasible()
            prev_equal = is_eq
            a, b = z3.Int(f"amt_a{i}"), z3.Int(f"amt_b{i}")
            if k == 0:
                eng.add(a >= 1, b == a)
                ops.append(("=", SInt(a)))
            elif k == 1:
                eng.add(a == 0, b >= 1)
                ops.append(("+", SInt(b)))
            elif k == 2:
                eng.add(a >= 1, b == 0)
                ops.append(("-", SInt(a)))
            else:
                eng.add(a >= 1, b >= 1)
                ops.append(("-", SInt(a)))
                ops.append(("+", SInt(b)))
            self.opcodes.append((OPK[k], SInt(la), SInt(la + a), SInt(lb), SInt(lb + b)))
            la, lb = la + a, lb + b
            script.append((OPK[k], a, b))
        self.ops, self.script, self.la, self.lb = ops, script, la, lb
        upd = self.interp.instantiate(self.AN.SpanUpdater, (OpaqueText(SInt(la)), OpaqueText(SInt(lb))), {"use_dmp": self.use_dmp})
        o1, o2 = z3.Int("o1"), z3.Int("o2")
        eng.add(0 <= o1, o1 <= o2, o2 <= la)
        self.o = (o1, o2)
        side = [bisect.bisect_left, bisect.bisect_right][eng.choose([z3.Bool("left"), z3.Not(z3.Bool("left"))])]
        self.side = side.__name__
        r1 = self.interp.call(self.AN.SpanUpdater.update, (upd, SInt(o1), side), {})
        r2 = self.interp.call(self.AN.SpanUpdater.update, (upd, SInt(o2), side), {})
        # the pair annotate_citations actually uses: start with bisect_right, end with bisect_left
        rs = self.interp.call(self.AN.SpanUpdater.update, (upd, SInt(o1), bisect.bisect_right), {})
        re_ = self.interp.call(self.AN.SpanUpdater.update, (upd, SInt(o2), bisect.bisect_left), {})
        return r1, r2, rs, re_

    def witness(self, m):
        return {"script": [(k, mval(m, a), mval(m, b)) for k, a, b in self.script], "o1": mval(m, self.o[0]), "o2": mval(m, self.o[1]), "side": self.side, "use_dmp": self.use_dmp}

    def describe(self, kind, out):
        m = self.eng.path_model()
        return {"path_model": self.witness(m) if m is not None else None}

    def judge(self, kind, out):
        if kind == "exc":
            return [self.check("no_exception:" + type(out).__name__, False, self.witness)]
        r1, r2, rs, re_ = [lift_int(x) for x in out]
        return [
            self.check("C10:translation_in_range", z3.And(0 <= r1, r1 <= self.lb, 0 <= r2, r2 <= self.lb), self.witness),
            self.check("C10:translation_monotone", r1 <= r2, self.witness),
        ]


# ---------------------------------------------------------------- replay on the real code
def realise(w):
    """plain/source texts of pairwise distinct characters realising the script."""
    from vf.harness.c12 import distinct_text

    if "script" not in w:
        t = distinct_text(w["n"])
        return t, None
    tot = sum(a + b for _, a, b in w["script"])
    pool = distinct_text(tot)
    plain, source, i = [], [], 0
    for k, a, b in w["script"]:
        if k == "equal":
            seg = pool[i : i + a]
            i += a
            plain.append(seg)
            source.append(seg)
        else:
            plain.append(pool[i : i + a])
            i += a
            source.append(pool[i : i + b])
            i += b
    return "".join(plain), "".join(source)


def concrete_oracle(plain, source, anns, out):
    """C09 + C10 (unchecked mode) on a concrete result; returns failed clauses."""
    import re

    bad = []
    target = source if source else plain
    stripped = out
    for _, b, a in anns:
        stripped = stripped.replace(b, "").replace(a, "")
    if stripped != target:
        bad.append("C09:stripped_equals_target")
    return bad


TAG_FILLS = ["", "<i>", "</i>", "<b><i>", "<b>x</b>", "q<i>", "</i>q", "<em>", "</em>", "</i></b>"]


def candidates(w, cap=12000):
    """concrete (plain, source, spans) realisations of a model.  Unchecked mode: one text of
    distinct characters.  skip/wrap: additionally texts in which style tags are placed in the
    segments between span boundaries / in the inserted source material (model-guided search:
    the stubbed tag content is what the model left open)."""
    import itertools

    from vf.harness.c12 import distinct_text

    plain, source = realise(w)
    yield plain, source, list(w["spans"])
    if w["mode"] == "unchecked":
        return
    n_done = 0
    if "script" not in w:
        # segments between the distinct boundaries of the model; keep the boundary pattern
        cuts = sorted({0, w["n"]} | {x for sp in w["spans"] for x in sp})
        segs = list(zip(cuts, cuts[1:]))
        pool = distinct_text(3 * len(segs) + 3)
        for combo in itertools.product(TAG_FILLS, repeat=len(segs)):
            text, pos, k = "", {cuts[0]: 0}, 0
            for (a, b), fill in zip(segs, combo):
                text += pool[k] + fill + pool[k + 1]
                k += 2
                pos[b] = len(text)
            yield text, None, [(pos[s], pos[e]) for s, e in w["spans"]]
            n_done += 1
            if n_done >= cap:
                return
        return
    # with a source: put tag material into the inserted blocks
    ins = [i for i, (k, a, b) in enumerate(w["script"]) if k in ("insert", "replace")]
    pool = distinct_text(sum(max(a, 1) for _, a, _ in w["script"]) + 4)
    for combo in itertools.product([f for f in TAG_FILLS if f], repeat=len(ins)):
        p, s_, i = [], [], 0
        fills = dict(zip(ins, combo))
        for j, (k, a, b) in enumerate(w["script"]):
            seg = pool[i : i + a]
            i += a
            if k == "equal":
                p.append(seg)
                s_.append(seg)
            elif k == "delete":
                p.append(seg)
            elif k == "insert":
                s_.append(fills[j])
            else:
                p.append(seg)
                s_.append(fills[j])
        yield "".join(p), "".join(s_), list(w["spans"])
        n_done += 1
        if n_done >= cap:
            return


def run_concrete(plain, source, spans, w):
    import eyecite.annotate as AN

    anns = [((s, e), B(j), A(j)) for j, (s, e) in enumerate(spans)]
    kwargs = {"unbalanced_tags": w["mode"]}
    steps = None
    if source is not None:
        kwargs["source_text"] = source
        kwargs["use_dmp"] = w["use_dmp"]
    try:
        out = AN.annotate_citations(plain, anns, **kwargs)
    except Exception as ex:
        return anns, None, ["no_exception:" + type(ex).__name__], kwargs
    bad = concrete_oracle(plain, source, anns, out)
    # C10, unchecked mode: each non-overlapped non-empty span appears once, in order
    if w["mode"] == "unchecked":
        order = sorted(anns)
        expect = []
        for idx, ((s, e), b, a) in enumerate(order):
            covered = any(e2 > s for (s2, e2), b2, a2 in order[:idx])
            if e > s and not covered:
                expect.append(((s, e), b, a))
        for (s, e), b, a in expect:
            if source is None:
                if out.count(b + plain[s:e] + a) != 1:
                    bad.append("C10:nonoverlapped_span_enclosed_once")
            elif all(k in ("equal", "insert") for k, _, _ in w["script"]):
                # forced alignment: annotation begins at the first and ends at the last plain character
                if out.count(b) != 1 or out.count(a) != 1:
                    bad.append("C10:forced_alignment_encloses_source_chars")
                else:
                    inner = out[out.index(b) + len(b) : out.index(a)]
                    for _, b2, a2 in anns:
                        inner = inner.replace(b2, "").replace(a2, "")
                    if not (inner.startswith(plain[s]) and inner.endswith(plain[e - 1]) and [c for c in inner if c in plain] == list(plain[s:e])):
                        bad.append("C10:forced_alignment_encloses_source_chars")
        pos = [out.index(b) for (_, b, a) in order if b in out]
        if pos != sorted(pos):
            bad.append("C10:annotations_in_span_order")
    return anns, out, sorted(set(bad)), kwargs


def replay(w, want=None):
    """first concrete realisation of the model on which the real code violates a clause
    (restricted to clauses starting with `want`)."""
    tried = 0
    first = None
    for plain, source, spans in candidates(w):
        tried += 1
        anns, out, bad, kwargs = run_concrete(plain, source, spans, w)
        if want:
            bad = [b for b in bad if b.startswith(want) or b.startswith("no_exception")]
        if first is None:
            first = (plain, source, anns, out, bad, tried)
        if bad:
            return plain, source, anns, out, bad, tried
    return first[:5] + (tried,)


def stress_forced_alignment(engines=(True, False)):
    """texts on which a non-minimal diff shows: long multi-line plain texts with repeated lines, sources that
    only insert foreign characters.  Returns (plain, source, spans, output, problem) or None."""
    import eyecite.annotate as AN

    line = "Roe v. Wade, 410 U.S. 113, 120 (1973)"
    lines = ["See 2 F.3d 4", "Id. at 5", line, line, line, line, "Id. at 5", "See 2 F.3d 4", line, "Id. at 9"]
    plain = "\n".join(lines)
    starts = []
    pos = 0
    for ln in lines:
        starts.append(pos)
        pos += len(ln) + 1
    for wrap_idx, tab_idx in ((2, 6), (3, 9), (4, 0), (5, 7), (8, 1)):
        src_lines = list(lines)
        src_lines[wrap_idx] = "<b>" + lines[wrap_idx] + "</b>"
        src_lines[tab_idx] = "\t" + lines[tab_idx]
        source = "\n".join(src_lines)
        spans = [(starts[i], starts[i] + len(lines[i])) for i in range(len(lines))]
        anns = [((s, e), B(j), A(j)) for j, (s, e) in enumerate(spans)]
        for use_dmp in engines:
            try:
                out = AN.annotate_citations(plain, anns, source_text=source, use_dmp=use_dmp)
            except Exception as ex:
                return plain, source, spans, None, f"raised {type(ex).__name__}"
            # expected position of every annotation in the source
            exp, p = [], 0
            for i, ln in enumerate(src_lines):
                off = 3 if i == wrap_idx else (1 if i == tab_idx else 0)
                exp.append((p + off, p + off + len(lines[i])))
                p += len(ln) + 1
            stripped, posmap = "", {}
            k = 0
            while k < len(out):
                hit = False
                for j in range(len(anns)):
                    for tag, mark in ((B(j), ("B", j)), (A(j), ("A", j))):
                        if out.startswith(tag, k):
                            posmap[mark] = len(stripped)
                            k += len(tag)
                            hit = True
                            break
                    if hit:
                        break
                if not hit:
                    stripped += out[k]
                    k += 1
            if stripped != source:
                return plain, source, spans, out, "C09: stripped output differs from the source"
            for j, (a, b) in enumerate(exp):
                if posmap.get(("B", j)) != a or posmap.get(("A", j)) != b:
                    return plain, source, spans, out, f"C10:forced_alignment: annotation {j} encloses source[{posmap.get(('B', j))}:{posmap.get(('A', j))}], expected [{a}:{b}] (use_dmp={use_dmp})"
    return None


def replay_updater(w):
    import bisect

    import eyecite.annotate as AN

    plain, source = realise({"script": w["script"], "n": 0})
    for use_dmp in (True, False):
        try:
            u = AN.SpanUpdater(plain, source, use_dmp=use_dmp)
            side = getattr(bisect, w["side"])
            r1, r2 = u.update(w["o1"], side), u.update(w["o2"], side)
        except Exception as ex:
            return plain, source, ["no_exception:" + type(ex).__name__]
        bad = []
        if not (0 <= r1 <= len(source) and 0 <= r2 <= len(source)):
            bad.append("C10:translation_in_range")
        if r1 > r2:
            bad.append("C10:translation_monotone")
        if bad:
            return plain, source, bad + [f"use_dmp={use_dmp}", f"update({w['o1']})={r1}", f"update({w['o2']})={r2}"]
    return plain, source, []


REGRESSION = [
    # (plain, annotations, kwargs)  -- fixed findings f763528, 1e8145f, 4629932
    ("foo bar", [((0, 0), "[", "]")], {"source_text": "foo baz bar"}),
    ("foobar", [((3, 3), "[", "]")], {"source_text": "fooXYZbar"}),
    ("foobar", [((3, 3), "[", "]"), ((3, 5), "{", "}")], {"source_text": "fooXYZbar"}),
    ("", [((0, 0), "[", "]")], {"source_text": "x"}),
    ("<i>a<b>x</b>c</i>", [((4, 12), "[", "]"), ((12, 17), "{", "}")], {"unbalanced_tags": "skip"}),
]


def run_property(rep, pid):
    quick = rep.tier == "quick"
    K, M = (2, 2) if quick else (3, 2)
    rep.bounds.append(f"annotations M <= {M} (arbitrary, possibly overlapping/empty/unsorted spans inside the plain text); diff scripts of <= {K + 1} opcode blocks ({K} in wrap/skip mode with a source) (equal/insert/delete/replace, alternating, amounts unbounded); text lengths unbounded; modes unchecked/skip/wrap; both diff engines")
    rep.outside.append("scripts with more opcode blocks; more annotations; spans outside [0, len(plain)]; in wrap mode more than 2 tags inside one span (1 in the quick tier); custom annotator callables")
    rep.stubs += [
        "fast_diff_match_patch.diff / difflib.SequenceMatcher.get_opcodes: any script of alternating equal / non-equal blocks with amounts >= 1 consistent with both text lengths (contract; realised and compared with the real engines on replay)",
        "is_balanced_html: arbitrary boolean per call (lxml is not modelled)",
        "re.finditer on the text (maybe_balance_style_tags): empty, or first/last match with spans inside the subject and the literal's width",
        "re.sub('(<[^>]+>)', before\\1after): keeps every character, inserts the literals around <= 2 non-overlapping matches (pattern checked to be one capture group; a repeated capture group is modelled as its last iteration)",
    ]
    findings = []
    runs = []
    # (a) no source text
    if pid == "C10":
        # C10's clauses concern the unchecked mode (skip may omit, wrap splits an annotation by design)
        M10 = 3
        runs.append(("plain", "vf.harness.c09", {"M": M10, "K": 0, "quick": quick, "modes": ["unchecked"]}, 3))
        runs.append(("source", "vf.harness.c09", {"M": 2, "K": K + 1, "quick": quick, "modes": ["unchecked"]}, 4))
    else:
        runs.append(("plain", "vf.harness.c09", {"M": M, "K": 0, "quick": quick}, 3))
        # (b) with a source text, all script kinds
        runs.append(("source", "vf.harness.c09", {"M": 2, "K": K + 1, "quick": quick, "modes": ["unchecked"]}, 4))
        runs.append(("source_tags", "vf.harness.c09", {"M": 1 if quick else 2, "K": K, "quick": quick, "modes": ["wrap"] if quick else ["wrap", "skip"]}, 4))
    # (c) forced alignment scripts (C10)
    if pid == "C10":
        runs.append(("forced", "vf.harness.c09", {"M": M, "K": 3 if quick else 4, "forced": True, "modes": ["unchecked"], "quick": quick}, 3))
    for name, mod, params, depth in runs:
        agg = common.explore_split(mod, params, depth=depth)
        rep.merge_explore(name, agg)
        findings += [(name, f) for f in agg["findings"]]
        if agg["paths"] == 0 and not agg["errors"]:
            rep.inconc(f"{name}: no feasible path")
        n_ob = sum(v for k, v in agg["verdicts"].items() if k.startswith(pid) or k.startswith("no_exception") or k.startswith("returns"))
        n_ok = sum(v for k, v in agg["verdicts"].items() if (k.startswith(pid)) and k.endswith(":valid"))
        rep.oblige(n_ok)
        rep.oblige(n_ob - n_ok, ok=False)
    if pid == "C10":
        agg = _explore_updater({"K": 3 if quick else 4})
        rep.merge_explore("span_updater", agg)
        findings += [("span_updater", f) for f in agg["findings"]]
        n_ob = sum(agg["verdicts"].values())
        n_ok = sum(v for k, v in agg["verdicts"].items() if k.endswith(":valid"))
        rep.oblige(n_ok)
        rep.oblige(n_ob - n_ok, ok=False)
    rep.distinct = rep.evaluations
    # replay counter-models
    seen = set()
    for name, f in findings:
        cl = f["clause"]
        if not (cl.startswith(pid) or cl.startswith("no_exception") or cl.startswith("returns")):
            continue
        if f["verdict"] != "cex":
            rep.inconc(f"{name}/{cl}: solver verdict {f['verdict']}")
            continue
        w = f["witness"]
        rep.replays += 1
        if cl == "C10:diff_engine_called_in_its_exact_minimal_configuration":
            if "inexact" in seen:
                continue
            seen.add("inexact")
            hit = stress_forced_alignment(engines=(True,))
            if hit:
                plain, source, spans, out, problem = hit
                rep.violation(f"diff engine not called in its exact configuration ({w.get('diff_config')}); annotate_citations on a {len(plain)}-character multi-line text with repeated lines and a source that only inserts foreign characters: {problem}", {"kind": "stress", "config": w.get("diff_config")})
            else:
                rep.spurious += 1
                rep.inconc(f"diff engine called with {w.get('diff_config')}: minimality is no longer guaranteed, but the stress texts show no misalignment")
            continue
        if name == "span_updater":
            plain, source, bad = replay_updater(w)
            if bad:
                key = (name, tuple(bad[:1]))
                if key not in seen:
                    seen.add(key)
                    rep.violation(f"SpanUpdater({plain!r}, {source!r}): {bad} (model {w})", {"kind": "updater", "witness": w})
            else:
                rep.spurious += 1
                rep.inconc(f"{name}/{cl}: model did not reproduce: {w}")
            continue
        try:
            plain, source, anns, out, bad, tried = replay(w, want=pid)
        except ValueError as ex:
            rep.inconc(f"cannot realise model {w}: {ex}")
            continue
        if bad:
            key = (tuple(bad), w["mode"], tuple(k for k, _, _ in w.get("script", [])))
            if key in seen:
                continue
            seen.add(key)
            rep.violation(
                f"annotate_citations({plain!r}, {[a[0] for a in anns]}, source_text={source!r}, unbalanced_tags={w['mode']!r}, use_dmp={w.get('use_dmp')}) -> {out!r}: {bad}",
                {"kind": "concrete", "args": [plain, anns, {k: v for k, v in (("source_text", source), ("unbalanced_tags", w["mode"]), ("use_dmp", w.get("use_dmp", True))) if v is not None}]},
            )
        else:
            rep.spurious += 1
            rep.inconc(f"{name}/{cl}: model did not reproduce on the real code ({tried} concrete realisations tried): {w}")
    if pid == "C10":
        known = [k for k in common.known_findings("C10") if k.get("status") == "known"]
        rep.replays += 1
        hit = stress_forced_alignment(engines=(False,))
        if hit:
            if known:
                rep.known_lines.append(f"KNOWN-FINDING: property=C10 {known[0]['what'][:240]}")
            else:
                rep.violation(f"annotate_citations(use_dmp=False) mis-aligns annotations on a text with repeated lines: {hit[4]}", {"kind": "stress", "config": "difflib"})
        hit = stress_forced_alignment(engines=(True,))
        if hit:
            rep.violation(f"annotate_citations (default diff engine) mis-aligns annotations on a text with repeated lines whose source only inserts foreign characters: {hit[4]}", {"kind": "stress", "config": "dmp"})
    # regression witnesses
    import eyecite.annotate as AN

    for plain, anns, kw in REGRESSION:
        rep.replays += 1
        try:
            out = AN.annotate_citations(plain, anns, **kw)
        except Exception as ex:
            if pid == "C09":
                rep.violation(f"annotate_citations({plain!r}, {anns}, {kw}) raised {type(ex).__name__}", {"kind": "concrete", "args": [plain, anns, kw]})
            continue
        if pid == "C09":
            bad = concrete_oracle(plain, kw.get("source_text"), anns, out)
            if bad:
                rep.violation(f"annotate_citations({plain!r}, {anns}, {kw}) -> {out!r}: {bad}", {"kind": "concrete", "args": [plain, anns, kw]})
    selftest(rep)
    what = "C09 (stripping the inserted strings restores the target text, in every mode)" if pid == "C09" else "C10 (each non-overlapped span is enclosed once and in order; forced-alignment position; monotone in-range translation)"
    return rep.finish(
        explanation=f"Path-exhaustive symbolic execution of the real annotate_citations / SpanUpdater source with symbolic spans, diff scripts (unbounded amounts) and modes; on every path {what} is a z3 validity query over slices of the symbolic text; counter-models are realised as plain/source pairs of distinct characters and replayed on the real code with the real diff engines.",
        technique="symbolic execution of the Python source (AST interpreter) + z3 (LIA) validity queries per path; bounded in number of annotations and diff blocks only",
    )


def _explore_updater(params):
    # HU lives in this module under another factory name
    return common.explore_split("vf.harness.c09_updater", params, depth=3)


def selftest(rep):
    """interpreted annotate_citations == CPython's on concrete inputs from the repo's tests."""
    import eyecite.annotate as AN

    eng = symex.Engine()
    symex.ENGINE = eng
    it = symex.Interp(eng)
    cases = [
        ("foo 1 U.S. 1 bar", [((4, 12), "<a>", "</a>")], {}),
        ("foo 1 U.S. 1 bar 2 F.2d 3", [((17, 25), "<b>", "</b>"), ((4, 12), "<a>", "</a>")], {}),
        ("foo 1 U.S. 1 bar", [((4, 12), "<a>", "</a>")], {"source_text": "foo  <i>1 U.S.</i> 1   bar"}),
        ("foo 1 U.S. 1 bar", [((4, 12), "<a>", "</a>")], {"source_text": "foo  <i>1 U.S.</i> 1   bar", "use_dmp": False}),
        ("foo <i>1 U.S.</i> 1 bar", [((4, 19), "<a>", "</a>")], {"unbalanced_tags": "wrap"}),
        ("foo <i>1 U.S.</i> 1 bar", [((7, 19), "<a>", "</a>")], {"unbalanced_tags": "skip"}),
        ("foo <i>1 U.S.</i> 1 bar", [((7, 19), "<a>", "</a>")], {"unbalanced_tags": "wrap"}),
    ] + [(p, a, k) for p, a, k in REGRESSION]
    n = 0
    for plain, anns, kw in cases:
        try:
            native = AN.annotate_citations(plain, anns, **kw)
        except Exception as ex:
            native = type(ex).__name__
        res = []

        def run():
            return it.call(AN.annotate_citations, (plain, list(anns)), dict(kw))

        outs = list(eng.explore(run))
        got = outs[0][1] if outs and outs[0][0] == "ok" else (type(outs[0][1]).__name__ if outs else None)
        if len(outs) != 1 or got != native:
            rep.inconc(f"interpreter self-test: annotate_citations{(plain, anns, kw)!r}: interpreter {got!r} vs CPython {native!r}")
            return
        n += 1
    rep.sections["interpreter_selftest"] = {"concrete_calls_agreeing_with_cpython": n}


def check(rep):
    return run_property(rep, "C09")


def replay_file(path):
    import json

    d = json.load(open(path))
    r = d["replay"]
    if r["kind"] == "stress":
        hit = stress_forced_alignment(engines=(True,))
        print(hit[4] if hit else None)
        return 1 if hit else 0
    if r["kind"] == "updater":
        print(replay_updater(r["witness"]))
        return 1 if replay_updater(r["witness"])[2] else 0
    import eyecite.annotate as AN

    plain, anns, kw = r["args"]
    anns = [((a[0][0], a[0][1]), a[1], a[2]) for a in anns]
    try:
        out = AN.annotate_citations(plain, anns, **kw)
    except Exception as ex:
        print("raised", ex)
        return 1
    bad = concrete_oracle(plain, kw.get("source_text"), anns, out)
    print(repr(out), bad)
    return 1 if bad else 0
