#!/bin/bash
# tools/import_rf.sh <RFn> : copy round-4 refactoring deliverables (/tmp/r4/RFn/{A,B,C}) into seeded/refactor-R4-<n><v>
set -e
p=$1; n=${p#RF}
for v in A B C; do
  s=/tmp/r4/$p/$v; d=/verif/seeded/refactor-R4-$n$v
  [ -s $s/patch.diff ] || { echo "no $s/patch.diff"; continue; }
  mkdir -p $d; cp $s/patch.diff $d/; [ -f $s/demo.py ] && cp $s/demo.py $d/; [ -f $s/meta.json ] && cp $s/meta.json $d/ || echo '{}' > $d/meta.json
  echo imported $d
done
