"""C18 — year and edition guesses are sound; disambiguation only removes.

Parts decided here on the real source:
  (a) get_year on an arbitrary 4-digit year string, with the upper bound of the accepted range symbolic;
  (c) ResourceCitation.guess_edition + Edition.includes_year on <= 3 candidate editions whose start/end
      years (or None) and the clock are symbolic;
  (d) disambiguate_reporters on <= 4 citations;
  (b) the year-assignment sites and (e) the remove_ambiguous tail of get_citations are decided by the
      extraction / filter harnesses (vf.harness.c02 and vf.harness.c03) and folded in by check().
"""
import datetime as _dt

import z3

from vf import absval, common, symex
from vf.absval import NumStr
from vf.symex import SInt, lift_int, mval


class YearObj:
    def __init__(self, year):
        self.year = year


class HGuess(common.Harness):
    """guess_edition / includes_year"""

    def __init__(self, params):
        super().__init__(params)
        import eyecite.models as M

        self.M = M
        self.E = params["E"]
        absval.install(self.interp)
        self.now = z3.Int("now_year")
        self.eng.assume(self.now >= 2024)
        self.interp.stubs[_dt.datetime.now] = lambda *a, **k: YearObj(SInt(self.now))

    def mk_edition(self, j):
        eng, M = self.eng, self.M
        e = object.__new__(M.Edition)
        spec = {}
        for fld in ("start", "end"):
            if eng.choose([z3.Bool(f"{fld}{j}_none"), z3.Not(z3.Bool(f"{fld}{j}_none"))]) == 0:
                object.__setattr__(e, fld, None)
                spec[fld] = None
            else:
                y = z3.Int(f"{fld}{j}")
                object.__setattr__(e, fld, YearObj(SInt(y)))
                spec[fld] = y
        object.__setattr__(e, "short_name", f"E{j}")
        object.__setattr__(e, "reporter", None)
        return e, spec

    def run(self):
        eng, M = self.eng, self.M
        ne = eng.choose([z3.Int("n_exact") == k for k in range(self.E + 1)])
        nv = eng.choose([z3.Int("n_var") == k for k in range(self.E + 1 - ne)])
        eds, specs = [], []
        for j in range(ne + nv):
            e, sp = self.mk_edition(j)
            eds.append(e)
            specs.append(sp)
        self.specs, self.ne, self.nv = specs, ne, nv
        tok = M.CitationToken("1 X 1", 0, 5, groups={"volume": "1", "reporter": "X", "page": "1"})
        c = M.FullCaseCitation(tok, 0)
        c.exact_editions = tuple(eds[:ne])
        c.variation_editions = tuple(eds[ne:])
        c.all_editions = tuple(eds)
        c.edition_guess = None
        if eng.choose([z3.Bool("has_year"), z3.Not(z3.Bool("has_year"))]) == 0:
            self.year = z3.Int("year")
            c.year = SInt(self.year)
        else:
            self.year = None
            c.year = None
        self.interp.call(M.ResourceCitation.guess_edition, (c,), {})
        return c, eds

    def includes(self, sp, y):
        conds = [y <= self.now]
        if sp["start"] is not None:
            conds.append(sp["start"] <= y)
        if sp["end"] is not None:
            conds.append(sp["end"] >= y)
        return z3.And(*conds)

    def witness(self, m):
        return {
            "n_exact": self.ne, "n_var": self.nv, "now": mval(m, self.now), "year": None if self.year is None else mval(m, self.year),
            "editions": [{k: (None if v is None else mval(m, v)) for k, v in sp.items()} for sp in self.specs],
        }

    def describe(self, kind, out):
        m = self.eng.path_model()
        return {"path_model": self.witness(m) if m is not None else None}

    def judge(self, kind, out):
        if kind == "exc":
            return [self.check("C18:no_exception:" + type(out).__name__, False, self.witness)]
        c, eds = out
        cand = list(range(self.ne)) if self.ne else list(range(self.ne, self.ne + self.nv))
        g = c.edition_guess
        gi = None if g is None else [i for i, e in enumerate(eds) if e is g]
        fs = []
        fs.append(self.check("C18:guess_is_a_candidate", z3.BoolVal(g is None or (len(gi) == 1 and gi[0] in cand)), self.witness))
        if len(cand) == 0:
            want = z3.BoolVal(g is None)
        elif len(cand) == 1:
            want = z3.BoolVal(g is not None and gi == [cand[0]])
        else:
            if self.year is None:
                want = z3.BoolVal(g is None)
            else:
                y = self.year
                inc = {i: self.includes(self.specs[i], y) for i in cand}
                if g is None:
                    # no guess: year is 0 (falsy) or not exactly one candidate publishes in that year
                    exactly_one = z3.Or(*[z3.And(inc[i], *[z3.Not(inc[k]) for k in cand if k != i]) for i in cand])
                    want = z3.Or(y == 0, z3.Not(exactly_one))
                else:
                    i0 = gi[0] if gi else None
                    want = z3.And(y != 0, inc[i0], *[z3.Not(inc[k]) for k in cand if k != i0]) if i0 in cand else z3.BoolVal(False)
        fs.append(self.check("C18:guess_made_iff_unique_candidate_or_unique_by_year", want, self.witness))
        return fs


class HYear(common.Harness):
    """get_year"""

    def __init__(self, params):
        super().__init__(params)
        import eyecite.helpers as Hh

        self.Hh = Hh
        absval.install(self.interp)
        self.hi = z3.Int("highest_valid_year")
        self.eng.assume(self.hi >= 2025)

    def run(self):
        y = z3.Int("y")
        self.y = y
        self.eng.add(0 <= y, y <= 9999)
        saved = self.Hh._highest_valid_year
        self.Hh._highest_valid_year = SInt(self.hi)
        try:
            kind = self.eng.choose([z3.Int("wordkind") == k for k in range(2)])
            self.kind = kind
            if kind == 0:
                return self.interp.call(self.Hh.get_year, (NumStr(y),), {})
            return self.interp.call(self.Hh.get_year, ("19x7",), {})
        finally:
            self.Hh._highest_valid_year = saved

    def witness(self, m):
        return {"year_text": mval(m, self.y), "highest_valid_year": mval(m, self.hi), "kind": self.kind}

    def describe(self, kind, out):
        m = self.eng.path_model()
        return {"path_model": self.witness(m) if m is not None else None}

    def judge(self, kind, out):
        if kind == "exc":
            return [self.check("C18:no_exception:" + type(out).__name__, False, self.witness)]
        if self.kind == 1:
            return [self.check("C18:year_in_range_and_equals_text", z3.BoolVal(out is None), self.witness)]
        inr = z3.And(self.y >= 1600, self.y <= self.hi)
        if out is None:
            return [self.check("C18:year_in_range_and_equals_text", z3.Not(inr), self.witness)]
        return [self.check("C18:year_in_range_and_equals_text", z3.And(inr, lift_int(out) == self.y), self.witness)]


class HYearText(common.Harness):
    """get_year on year *text*: any string of <= 5 arbitrary characters (all of Unicode).  It never raises; a
    number is returned only for text that int() reads as a number in the accepted range, and for the texts the
    year patterns capture (exactly four decimal digits of any script) the number is their decimal value."""

    def __init__(self, params):
        super().__init__(params)
        import eyecite.helpers as Hh
        from vf import symre
        from vf.harness import pinlemma

        self.Hh, self.symre, self.pl = Hh, symre, pinlemma
        self.N = params["N"]
        self.hi = z3.Int("highest_valid_year")
        self.eng.assume(self.hi >= 2025)
        # int() model shared with the pin-cite lemma (strip, sign, Unicode decimal digits, else ValueError)
        self._int = pinlemma.HPin.stub_int.__get__(self)
        self.interp.stubs[int] = self._int

    def run(self):
        eng = self.eng
        n = eng.choose([z3.Int("len") == k for k in range(self.N + 1)])
        self.chars = [z3.Int(f"c{i}") for i in range(n)]
        for c in self.chars:
            eng.add(c >= 0, c <= 0x10FFFF)
        saved = self.Hh._highest_valid_year
        self.Hh._highest_valid_year = SInt(self.hi)
        try:
            return self.interp.call(self.Hh.get_year, (self.symre.CStr(list(self.chars)) if n else "",), {})
        finally:
            self.Hh._highest_valid_year = saved

    def witness(self, m):
        return {"year_text": "".join(chr(mval(m, c) or 0) for c in self.chars), "highest_valid_year": mval(m, self.hi)}

    def describe(self, kind, out):
        m = self.eng.path_model()
        return self.witness(m) if m is not None else {}

    def judge(self, kind, out):
        if kind == "exc":
            return [self.check("C18:get_year_raises:" + type(out).__name__, False, self.witness)]
        pl = self.pl
        fs = []
        if out is not None:
            y = lift_int(out)
            fs.append(self.check("C18:year_text:returned_year_is_in_the_accepted_range", z3.And(y >= 1600, y <= self.hi), self.witness))
        if len(self.chars) == 4:
            alld = z3.And(*[pl.is_digit(c) for c in self.chars])
            v = pl.number_value(self.chars)
            inr = z3.And(v >= 1600, v <= self.hi)
            want = z3.Not(inr) if out is None else z3.And(inr, lift_int(out) == v)
            fs.append(self.check("C18:year_text:four_decimal_digits_give_their_value_iff_in_range", z3.Implies(alld, want), self.witness))
        return fs or [self.check("C18:year_text:returned_year_is_in_the_accepted_range", z3.BoolVal(True), self.witness)]


class HDis(common.Harness):
    """disambiguate_reporters"""

    def __init__(self, params):
        super().__init__(params)
        import eyecite.helpers as Hh
        import eyecite.models as M

        self.Hh, self.M = Hh, M
        self.Mn = params["M"]

    def run(self):
        M, eng = self.M, self.eng
        cs, keep = [], []
        tok = M.CitationToken("1 X 1", 0, 5, groups={"volume": "1", "reporter": "X", "page": "1"})
        n = 1 + eng.choose([z3.Int("n") == k for k in range(1, self.Mn + 1)])
        for i in range(n):
            k = eng.choose([z3.Int(f"k{i}") == j for j in range(5)])
            if k == 0:
                c = M.FullCaseCitation(tok, i)
            elif k == 1:
                c = M.ShortCaseCitation(tok, i)
            elif k == 2:
                c = M.FullLawCitation(tok, i)
            elif k == 3:
                c = M.IdCitation(M.IdToken("id.", 0, 3), i)
            else:
                c = M.ReferenceCitation(M.CaseReferenceToken("Foo", 0, 3), i)
            if k <= 2:
                guessed = eng.choose([z3.Bool(f"g{i}"), z3.Not(z3.Bool(f"g{i}"))]) == 0
                c.edition_guess = object() if guessed else None
                keep.append(guessed)
            else:
                keep.append(True)
            cs.append(c)
        self.kinds = [type(c).__name__ for c in cs]
        out = self.interp.call(self.Hh.disambiguate_reporters, (cs,), {})
        return cs, keep, out

    def witness(self, m):
        return {"kinds": self.kinds}

    def describe(self, kind, out):
        return {"kinds": self.kinds}

    def judge(self, kind, out):
        if kind == "exc":
            return [self.check("C18:no_exception:" + type(out).__name__, False, self.witness)]
        cs, keep, res = out
        want = [c for c, k in zip(cs, keep) if k]
        ok = len(want) == len(res) and all(a is b for a, b in zip(want, res))
        return [self.check("C18:disambiguation_keeps_exactly_nonresource_or_guessed_in_order", z3.BoolVal(ok), self.witness)]


def make(params):
    return {"guess": HGuess, "year": HYear, "year_text": HYearText, "dis": HDis}[params["part"]](params)


# ---------------------------------------------------------------- replay
def replay_year_text(text):
    import re as _re

    import eyecite.helpers as Hh

    try:
        got = Hh.get_year(text)
    except Exception as ex:
        return ["C18:get_year_raises:" + type(ex).__name__], None
    bad = []
    hi = Hh._highest_valid_year
    if got is not None and not (1600 <= got <= hi):
        bad.append("C18:year_text:returned_year_is_in_the_accepted_range")
    if _re.fullmatch(r"\d{4}", text):
        v = int(text)
        if (got is None) == (1600 <= v <= hi) or (got is not None and got != v):
            bad.append("C18:year_text:four_decimal_digits_give_their_value_iff_in_range")
    return bad, got


def replay_guess(w):
    import eyecite.models as M

    class FakeNow(_dt.datetime):
        @classmethod
        def now(cls, tz=None):
            return _dt.datetime(w["now"], 6, 1)

    eds = []
    for j, sp in enumerate(w["editions"]):
        def d(y):
            if y is None:
                return None
            return YearObj(y)
        e = object.__new__(M.Edition)
        object.__setattr__(e, "start", d(sp["start"]))
        object.__setattr__(e, "end", d(sp["end"]))
        object.__setattr__(e, "short_name", f"E{j}")
        object.__setattr__(e, "reporter", None)
        eds.append(e)
    tok = M.CitationToken("1 X 1", 0, 5, groups={"volume": "1", "reporter": "X", "page": "1"})
    c = M.FullCaseCitation(tok, 0)
    c.exact_editions = tuple(eds[: w["n_exact"]])
    c.variation_editions = tuple(eds[w["n_exact"] :])
    c.edition_guess = None
    c.year = w["year"]
    saved = M.datetime
    M.datetime = FakeNow
    try:
        c.guess_edition()
    finally:
        M.datetime = saved
    cand = list(range(w["n_exact"])) if w["n_exact"] else list(range(w["n_exact"], len(eds)))
    g = c.edition_guess
    gi = None if g is None else [i for i, e in enumerate(eds) if e is g][0]

    def inc(i):
        sp, y = w["editions"][i], w["year"]
        return y <= w["now"] and (sp["start"] is None or sp["start"] <= y) and (sp["end"] is None or sp["end"] >= y)

    bad = []
    if g is not None and gi not in cand:
        bad.append("C18:guess_is_a_candidate")
    if len(cand) == 0:
        want = None
    elif len(cand) == 1:
        want = cand[0]
    elif not w["year"]:
        want = None
    else:
        pub = [i for i in cand if inc(i)]
        want = pub[0] if len(pub) == 1 else None
    if gi != want:
        bad.append("C18:guess_made_iff_unique_candidate_or_unique_by_year")
    return bad, gi, want


def replay_year(w):
    import eyecite.helpers as Hh

    saved = Hh._highest_valid_year
    Hh._highest_valid_year = w["highest_valid_year"]
    try:
        txt = "%04d" % w["year_text"] if w["kind"] == 0 else "19x7"
        got = Hh.get_year(txt)
    finally:
        Hh._highest_valid_year = saved
    want = w["year_text"] if (w["kind"] == 0 and 1600 <= w["year_text"] <= w["highest_valid_year"]) else None
    return ([] if got == want else ["C18:year_in_range_and_equals_text"]), got, want


REGRESSION_TEXTS = [
    ("Foo v. Bar (2100) 1 U.S. 1", None),
    ("Foo v. Bar, 1 U.S. 1 (1599)", None),
    ("Foo v. Bar, 1 U.S. 1 (1600)", 1600),
]


def check(rep):
    quick = rep.tier == "quick"
    E = 3 if quick else 4  # 3: two exact candidates plus a variation candidate (what a filter over the wrong list needs)
    rep.bounds.append(f"guess_edition: <= {E} candidate editions (exact and/or variation), start/end years symbolic or None, clock symbolic; get_year: every 4-digit string, symbolic upper bound; disambiguate_reporters: <= {3 if quick else 4} citations")
    rep.outside.append("more candidate editions; year strings that are not 4 digits (the year patterns only capture \\d{4}, see C02 harness); inherited years of parallel citations")
    rep.stubs += ["datetime.now().year: symbolic >= 2024", "helpers._highest_valid_year: symbolic >= 2025 (module constant computed at import)"]
    findings = []
    NT = 4 if quick else 5
    rep.bounds.append(f"get_year on text: every string of <= {NT} arbitrary characters (never raises, a returned year is in range; four decimal digits of any script give their value)")
    for part, params in (("guess", {"part": "guess", "E": E}), ("year", {"part": "year"}), ("year_text", {"part": "year_text", "N": NT}), ("dis", {"part": "dis", "M": 3 if quick else 4})):
        agg = common.explore_split("vf.harness.c18", params, depth=3)
        rep.merge_explore(part, agg)
        findings += [(part, f) for f in agg["findings"]]
        n_ob = sum(agg["verdicts"].values())
        n_ok = sum(v for k, v in agg["verdicts"].items() if k.endswith(":valid"))
        rep.oblige(n_ok)
        rep.oblige(n_ob - n_ok, ok=False)
        if agg["paths"] == 0 and not agg["errors"]:
            rep.inconc(f"{part}: no feasible path")
    # the extraction harness contributes the year-assignment sites, the filter harness the remove_ambiguous tail
    try:
        from vf.harness import c02

        c02.fold_into_c18(rep, findings)
    except ImportError:
        rep.outside.append("year-assignment sites (add_post_citation, add_defendant, add_law_metadata, add_journal_metadata): extraction harness not available")
    try:
        from vf.harness import c03

        c03.fold_into_c18(rep, findings)
    except (ImportError, AttributeError):
        rep.outside.append("remove_ambiguous tail of get_citations: filter harness not available")
    rep.distinct = rep.evaluations
    seen = set()
    for part, f in findings:
        if part == "year_text":
            if f["verdict"] != "cex":
                rep.inconc(f"{part}/{f['clause']}: solver verdict {f['verdict']}")
                continue
            rep.replays += 1
            bad, got = replay_year_text(f["witness"]["year_text"])
            if bad:
                if ("year_text", tuple(bad)) not in seen:
                    seen.add(("year_text", tuple(bad)))
                    rep.violation(f"get_year({f['witness']['year_text']!r}) -> {got}: {bad}", {"kind": "year_text", "text": f["witness"]["year_text"]})
            else:
                rep.spurious += 1
                rep.inconc(f"year-text model {f['witness']['year_text']!r} did not reproduce ({f['clause']})")
            continue
        if part not in ("guess", "year", "dis"):
            continue
        if f["verdict"] != "cex":
            rep.inconc(f"{part}/{f['clause']}: solver verdict {f['verdict']}")
            continue
        w = f["witness"]
        rep.replays += 1
        if part == "guess":
            bad, got, want = replay_guess(w)
        elif part == "year":
            bad, got, want = replay_year(w)
        else:
            bad, got, want = ["C18:disambiguation_keeps_exactly_nonresource_or_guessed_in_order"], None, None
            import eyecite.helpers as Hh
            import eyecite.models as M

            # concrete re-run
            tok = M.CitationToken("1 X 1", 0, 5, groups={"volume": "1", "reporter": "X", "page": "1"})
            cs = [M.FullCaseCitation(tok, 0), M.IdCitation(M.IdToken("id.", 0, 3), 1), M.ShortCaseCitation(tok, 2)]
            cs[0].edition_guess, cs[2].edition_guess = None, object()
            res = Hh.disambiguate_reporters(cs)
            bad = [] if [id(x) for x in res] == [id(cs[1]), id(cs[2])] else bad
        if bad:
            key = (part, tuple(bad))
            if key in seen:
                continue
            seen.add(key)
            rep.violation(f"{part}: {w} -> got {got}, expected {want}: {bad}", {"kind": part, "witness": w})
        else:
            rep.spurious += 1
            rep.inconc(f"{part}/{f['clause']}: model did not reproduce: {w}")
    from eyecite import get_citations

    for t, want in REGRESSION_TEXTS:
        rep.replays += 1
        cs = get_citations(t)
        if not cs or cs[0].year != want:
            rep.violation(f"get_citations({t!r})[0].year == {cs[0].year if cs else None}, expected {want}", {"kind": "text", "text": t, "year": want})
    return rep.finish(
        explanation="Path-exhaustive symbolic execution of the real get_year, guess_edition, Edition.includes_year and disambiguate_reporters source with symbolic years, edition date ranges and clock; per path the C18 clauses are z3 validity queries; counter-models are replayed on the real functions.",
        technique="symbolic execution of the Python source (AST interpreter) + z3 validity queries per path",
    )


def replay_file(path):
    import json

    r = json.load(open(path))["replay"]
    if r["kind"] == "guess":
        bad = replay_guess(r["witness"])[0]
    elif r["kind"] == "year":
        bad = replay_year(r["witness"])[0]
    elif r["kind"] == "year_text":
        bad = replay_year_text(r["text"])[0]
    elif r["kind"] == "text":
        from eyecite import get_citations

        cs = get_citations(r["text"])
        bad = [] if cs and cs[0].year == r["year"] else ["year"]
    else:
        bad = ["?"]
    print(bad)
    return 1 if bad else 0
