#!/bin/bash
# tools/with_patch.sh <patch.diff | -R <commit>> -- <command...>
# applies a patch (or the reverse of a commit) to /repo's working tree, runs the command, restores the tree.
set -u
R=${VF_REPO:-/repo}
if [ "$1" = "-R" ]; then
  git -C $R show "$2" > /tmp/.wp_patch.$$ ; APPLY="git -C $R apply -R /tmp/.wp_patch.$$"; shift 2
else
  APPLY="git -C $R apply $(realpath "$1")"; shift
fi
[ "$1" = "--" ] && shift
if [ -n "$(git -C $R status --porcelain -- eyecite)" ]; then echo "repo dirty"; exit 3; fi
$APPLY || { echo "patch does not apply"; exit 3; }
"$@"; rc=$?
git -C $R checkout -- . ; rm -f /tmp/.wp_patch.$$
exit $rc
