"""Contract stubs for the C regex engines on symbolic texts (TStr).

A stubbed search/match/finditer returns `None` or a match whose span lies inside
the subject; anchors that the *pattern itself* carries at its ends (as built by
match_on_tokens: ^(?:...) and (?:...)$) pin the start/end; every named group of
the real compiled pattern is `None` or a slice inside the match, decided lazily
(forked on first inspection).  Width facts (min/max match length) are read from
the pattern's own AST via re._parser .getwidth()."""
import re
import re._constants as sc
import re._parser as sp

import z3

from vf import symex
from vf.symex import SInt, TStr, NotEncodable, lift_int


def _subject(text, n):
    if isinstance(text, TStr):
        return text
    if isinstance(text, str):
        return TStr([("lit", text)], n)
    raise NotEncodable(f"regex subject {type(text)}")


class SymMatch:
    def __init__(self, eng, subj, s, e, names, tag):
        self.eng, self.subj, self.s, self.e = eng, subj, s, e  # s, e: absolute offsets in the base text
        self.g = {nm: "lazy" for nm in names}
        self.tag = tag
        lo, hi = subj.single()
        self.lo = lo

    def __bool__(self):
        return True

    def _grp(self, k):
        if k == 0:
            return (self.s, self.e)
        if k not in self.g:
            raise IndexError(f"no such group {k}")
        if self.g[k] == "lazy":
            b = self.eng.fresh_bool(f"grp_{self.tag}_{k}")
            if self.eng.choose([b, z3.Not(b)]) == 0:
                gs, ge = self.eng.fresh_int(f"gs_{k}"), self.eng.fresh_int(f"ge_{k}")
                self.eng.add(self.s <= gs, gs <= ge, ge <= self.e)
                self.g[k] = (gs, ge)
            else:
                self.g[k] = None
        return self.g[k]

    def constrain_group(self, k, fn):
        """harness hook: add facts derived from the pattern AST about group k (if it participates)."""
        v = self._grp(k)
        if v is not None:
            fn(v[0], v[1], self.s, self.e)

    def span(self, k=0):
        v = self._grp(k)
        if v is None:
            return (-1, -1)
        return (SInt(z3.simplify(v[0] - self.lo)), SInt(z3.simplify(v[1] - self.lo)))

    def start(self, k=0):
        return self.span(k)[0]

    def end(self, k=0):
        return self.span(k)[1]

    def group(self, k=0):
        v = self._grp(k)
        if v is None:
            return None
        return TStr.sub(v[0], v[1], self.subj.n)

    __getitem__ = group

    def groups(self):
        return tuple(self.group(k) for k in self.g)

    def groupdict(self):
        return {k: self.group(k) for k in self.g if isinstance(k, str)}


def pattern_info(pattern, flags, module):
    """(names, anchored_start, anchored_end, minw, maxw) from the real compiled pattern / its AST."""
    c = module.compile(pattern, flags)
    names = list(c.groupindex)
    a0 = pattern.startswith("^")
    a1 = pattern.endswith("$") and not pattern.endswith("\\$")
    minw = maxw = None
    if module is re:
        try:
            p = sp.parse(pattern, flags)
            minw, maxw = p.getwidth()
            if maxw >= sc.MAXREPEAT or maxw >= 2**31:
                maxw = None
        except Exception:
            pass
    return names, a0, a1, minw, maxw


def sym_search(eng, pattern, text, flags=0, module=re, n=None, may_fail=True, tag="m"):
    subj = _subject(text, n)
    if not subj.atoms:
        # empty subject: the result is whatever the real engine says on ""
        return module.search(pattern, "", flags)
    sg = subj.single()
    if sg is None:
        raise NotEncodable(f"regex on non-contiguous subject {subj}")
    lo, hi = sg
    names, a0, a1, minw, maxw = pattern_info(pattern, flags, module)
    if may_fail:
        b = eng.fresh_bool(f"match_{tag}")
        if eng.choose([b, z3.Not(b)]) == 1:
            return None
    s, e = eng.fresh_int(f"ms_{tag}"), eng.fresh_int(f"me_{tag}")
    eng.add(lo <= s, s <= e, e <= hi)
    if a0 and not (flags & re.M):
        eng.add(s == lo)
    if a1 and not (flags & re.M):
        # `$` also matches before a final newline
        eng.add(z3.Or(e == hi, e == hi - 1))
    if minw is not None:
        eng.add(e - s >= minw)
    if maxw is not None:
        eng.add(e - s <= maxw)
    return SymMatch(eng, subj, s, e, names, tag)


class FirstLast:
    """result of list(finditer(...)) when the code only looks at [0], [-1] and truthiness."""

    def __init__(self, first, last):
        self.first, self.last = first, last

    def __bool__(self):
        return self.first is not None

    def __iter__(self):
        raise NotEncodable("iteration over a first/last match list")

    def __len__(self):
        raise NotEncodable("len of a first/last match list")

    def __getitem__(self, i):
        if self.first is None:
            raise IndexError("list index out of range")
        if i == 0:
            return self.first
        if i == -1:
            return self.last
        raise NotEncodable(f"match list index {i}")


def sym_finditer_first_last(eng, pattern, text, flags=0, module=re, n=None, tag="f"):
    """(first, last) of the non-overlapping left-to-right matches, or empty."""
    first = sym_search(eng, pattern, text, flags, module, n, tag=tag + "0")
    if first is None:
        return FirstLast(None, None)
    b = eng.fresh_bool(f"more_{tag}")
    if eng.choose([b, z3.Not(b)]) == 1:
        return FirstLast(first, first)
    last = sym_search(eng, pattern, text, flags, module, n, may_fail=False, tag=tag + "1")
    eng.add(last.s >= first.e, last.s > first.s)
    return FirstLast(first, last)


def whole_match_is_group1(pattern, flags=0):
    p = sp.parse(pattern, flags)
    items = list(p)
    return len(items) == 1 and items[0][0] == sc.SUBPATTERN and items[0][1][0] == 1


def sym_sub_wrap(eng, pattern, repl, text, n, max_matches=2, tag="s"):
    """re.sub(pattern, repl, text) for a pattern that is exactly one capture group and a template
    of the form  X \\1 Y : every character of `text` is kept, X/Y are inserted around up to
    `max_matches` non-overlapping matches (more matches: BoundExceeded)."""
    if not whole_match_is_group1(pattern):
        raise NotEncodable("re.sub stub needs a pattern that is one capture group")
    tpl = sp.parse_template(repl, re.compile(pattern))
    # python 3.12: parse_template returns a list: literals and group indexes
    lits = tpl if isinstance(tpl, list) else None
    if lits is None or [x for x in lits if isinstance(x, int)] != [1]:
        raise NotEncodable(f"re.sub template {repl!r}")
    i1 = lits.index(1)
    X = "".join(x for x in lits[:i1] if isinstance(x, str))
    Y = "".join(x for x in lits[i1 + 1 :] if isinstance(x, str))
    subj = _subject(text, n)
    if not subj.atoms:
        return subj
    sg = subj.single()
    if sg is None:
        raise NotEncodable("re.sub on non-contiguous subject")
    lo, hi = sg
    minw, maxw = sp.parse(pattern).getwidth()
    # bound: at most max_matches substitutions (stated in the evidence as outside the claim)
    k = eng.choose([z3.Int(f"nsub_{tag}") == j for j in range(max_matches + 1)])
    out = TStr([], subj.n)
    cur = lo
    for j in range(k):
        s, e = eng.fresh_int(f"ss_{tag}{j}"), eng.fresh_int(f"se_{tag}{j}")
        eng.add(cur <= s, s + minw <= e, e <= hi)
        out = out + TStr.sub(cur, s, subj.n) + X + TStr.sub(s, e, subj.n) + Y
        cur = e
    out = out + TStr.sub(cur, hi, subj.n)
    return out
