"""C20 — cleaning is composable, idempotent and preserves content.

(1) clean_text on step lists of length <= 3 over {known names, an unknown name, a callable} with abstract
    cleaners and a text whose emptiness is symbolic: the result is the sequential application, an unknown
    step raises ValueError.
(2) inline_whitespace / all_whitespace / underscores interpreted on every string of <= N symbolic code
    points (their re.sub lands in the symbolic matcher): idempotent, no run left that should have been
    removed, all other characters kept in order and nothing else added.  The specification is written
    over characters (space/tab; str.isspace(); underscore) independently of the patterns in the code.
(3) the html cleaner is lxml: not applicable to this technique (stated in the evidence).
"""
import z3

from vf import common, rex, symex, symre
from vf.symex import mkbool
from vf.symre import CStr


class AbsText:
    """a text known only by what has been applied to it; emptiness is symbolic."""

    def __init__(self, eng, trace):
        self.trace = trace
        self.empty = eng.fresh_bool("empty")
        self.eng = eng

    def __bool__(self):
        return not self.eng.choose([self.empty, z3.Not(self.empty)]) == 0

    def __eq__(self, o):
        return self is o

    __hash__ = object.__hash__


STEP_KINDS = ["inline_whitespace", "all_whitespace", "underscores", "html", "<unknown>", "<callable>"]


class HSteps(common.Harness):
    def __init__(self, params):
        super().__init__(params)
        import eyecite.clean as C

        self.C = C
        self.N = params["N"]

    def run(self):
        eng, C = self.eng, self.C
        n = eng.choose([z3.Int("nsteps") == k for k in range(self.N + 1)])
        kinds = [STEP_KINDS[eng.choose([z3.Int(f"step{i}") == j for j in range(len(STEP_KINDS))])] for i in range(n)]
        self.kinds = kinds

        def absf(name):
            return lambda t: AbsText(eng, t.trace + (name,))

        saved = dict(C.cleaners_lookup)
        steps = []
        for i, k in enumerate(kinds):
            if k == "<unknown>":
                steps.append("no_such_cleaner")
            elif k == "<callable>":
                steps.append(absf(f"callable{i}"))
            else:
                steps.append(k)
        try:
            for k in list(C.cleaners_lookup):
                C.cleaners_lookup[k] = absf(k)
            t0 = AbsText(eng, ())
            self.t0 = t0
            return self.interp.call(C.clean_text, (t0, steps), {})
        finally:
            C.cleaners_lookup.clear()
            C.cleaners_lookup.update(saved)

    def witness(self, m):
        return {"steps": self.kinds}

    def describe(self, kind, out):
        return {"steps": self.kinds, "outcome": kind}

    def judge(self, kind, out):
        unknown = "<unknown>" in self.kinds
        if kind == "exc":
            ok = isinstance(out, ValueError) and unknown
            return [self.check("C20:unknown_step_raises_ValueError_else_sequential_application", z3.BoolVal(ok), self.witness)]
        if unknown:
            return [self.check("C20:unknown_step_raises_ValueError_else_sequential_application", z3.BoolVal(False), self.witness)]
        want = tuple(k if k != "<callable>" else f"callable{i}" for i, k in enumerate(self.kinds))
        ok = isinstance(out, AbsText) and out.trace == want
        return [self.check("C20:unknown_step_raises_ValueError_else_sequential_application", z3.BoolVal(ok), self.witness)]


# ---------------------------------------------------------------- character-level cleaners
def spec_classes():
    space = [(cp, cp) for cp in range(0x110000) if chr(cp).isspace()]
    return {
        "inline_whitespace": (rex.norm([(0x20, 0x20), (0x09, 0x09)]), [0x20], 1),
        "all_whitespace": (rex.norm(space), [0x20], 1),
        "underscores": ([(0x5F, 0x5F)], [], 2),
    }


_SPEC = None


class HClean(common.Harness):
    def __init__(self, params):
        super().__init__(params)
        import eyecite.clean as C

        global _SPEC
        if _SPEC is None:
            _SPEC = spec_classes()
        self.C = C
        self.name = params["cleaner"]
        self.N = params["N"]
        symre.install(self.interp)

    def run(self):
        eng = self.eng
        n = eng.choose([z3.Int("len") == k for k in range(self.N + 1)])
        s = CStr.fresh(eng, n)
        self.s = s
        f = getattr(self.C, self.name)
        o1 = self.interp.call(f, (s,), {})
        o2 = self.interp.call(f, (o1,), {})
        return s, o1, o2

    def witness(self, m):
        return {"cleaner": self.name, "text": self.s.concrete(m)}

    def describe(self, kind, out):
        m = self.eng.path_model()
        return self.witness(m) if m is not None else {}

    def member(self, c, rs):
        """decided membership of character c in the class on this path (forces a decision: forks)."""
        return symre.char_in(c, rs)

    def judge(self, kind, out):
        if kind == "exc":
            return [self.check("C20:no_exception:" + type(out).__name__, False, self.witness)]
        s, o1, o2 = out
        if not isinstance(o1, CStr) or not isinstance(o2, CStr):
            return [self.check("C20:returns_text", False, self.witness)]
        rs, repl, minrun = _SPEC[self.name]
        eng = self.eng
        fs = [self.check("C20:idempotent", z3.BoolVal(bool(symre.same(o1, o2, eng))), self.witness)]
        # specification output, from decided class membership of each input character
        inc = []
        for c in s.chars:
            yes = eng.implied(z3.Or(*[z3.And(c >= a, c <= b) if a != b else c == a for a, b in rs])) if not isinstance(c, int) else any(a <= c <= b for a, b in rs)
            no = (not yes) and (eng.implied(z3.Not(z3.Or(*[z3.And(c >= a, c <= b) if a != b else c == a for a, b in rs]))) if not isinstance(c, int) else True)
            inc.append(True if yes else (False if no else None))
        if any(x is None for x in inc):
            # the code did not distinguish a character the specification distinguishes: split the path
            for c, x in zip(s.chars, inc):
                if x is None:
                    symre.char_in(c, rs)  # forks; the DFS revisits both sides
            return self.judge(kind, out)
        want = []
        i = 0
        while i < len(s.chars):
            if inc[i]:
                j = i
                while j < len(s.chars) and inc[j]:
                    j += 1
                if j - i >= minrun:
                    want.extend(repl)
                else:
                    want.extend(s.chars[i:j])
                i = j
            else:
                want.append(s.chars[i])
                i += 1
        fs.append(self.check("C20:runs_replaced_everything_else_kept_in_order", z3.BoolVal(bool(symre.same(o1, CStr(want), eng))), self.witness))
        return fs


def make(params):
    return HSteps(params) if params["part"] == "steps" else HClean(params)


# ---------------------------------------------------------------- replay
def replay_clean(w):
    import eyecite.clean as C

    f = getattr(C, w["cleaner"])
    s = w["text"]
    rs, repl, minrun = spec_classes()[w["cleaner"]]
    try:
        o1 = f(s)
        o2 = f(o1)
    except Exception as ex:
        return ["C20:no_exception:" + type(ex).__name__], None
    bad = []
    if o1 != o2:
        bad.append("C20:idempotent")
    want, i = [], 0
    inc = [rex.in_ranges(ord(c), rs) for c in s]
    while i < len(s):
        if inc[i]:
            j = i
            while j < len(s) and inc[j]:
                j += 1
            want.append("".join(chr(x) for x in repl) if j - i >= minrun else s[i:j])
            i = j
        else:
            want.append(s[i])
            i += 1
    if o1 != "".join(want):
        bad.append("C20:runs_replaced_everything_else_kept_in_order")
    return bad, o1


def replay_steps(w):
    import eyecite.clean as C

    marks = []
    steps = []
    for i, k in enumerate(w["steps"]):
        if k == "<unknown>":
            steps.append("no_such_cleaner")
        elif k == "<callable>":
            steps.append(lambda t, i=i: (marks.append(f"callable{i}"), t)[1])
        else:
            steps.append(k)
    bad = []
    for text in ("", "a  b__c", "<p>x</p>", "____"):
        marks.clear()
        try:
            out = C.clean_text(text, steps)
            raised = None
        except ValueError:
            raised = "ValueError"
        except Exception as ex:
            raised = type(ex).__name__
        if "<unknown>" in w["steps"]:
            if raised != "ValueError":
                bad.append((text, f"expected ValueError, got {raised or 'a result'}"))
        else:
            exp = text
            ok = True
            try:
                for i, k in enumerate(w["steps"]):
                    if k != "<callable>":
                        exp = C.cleaners_lookup[k](exp)
            except Exception:
                ok = False
            if ok and (raised or out != exp):
                bad.append((text, f"{out!r} != sequential {exp!r}" if not raised else f"raised {raised}"))
    return bad


def check(rep):
    quick = rep.tier == "quick"
    N = 8 if quick else 12
    rep.bounds.append(f"step lists of length <= 3 over {STEP_KINDS}; for the three text cleaners every string of <= {N} code points (each character ranges over all of Unicode)")
    rep.outside += [f"strings longer than {N} characters for the character-level clauses", "the html cleaner (lxml/libxml2 is C code this technique cannot encode): its clause is not decided"]
    rep.stubs.append("cleaners_lookup entries replaced by abstract cleaners for the step-list clause (the real cleaners are analysed separately)")
    findings = []
    agg = common.explore_split("vf.harness.c20", {"part": "steps", "N": 3}, depth=3)
    rep.merge_explore("clean_text_steps", agg)
    findings += [("steps", f) for f in agg["findings"]]
    tot = dict(agg["verdicts"])
    for name in ("inline_whitespace", "all_whitespace", "underscores"):
        a = common.explore_split("vf.harness.c20", {"part": "clean", "cleaner": name, "N": N}, depth=4)
        rep.merge_explore(name, a)
        findings += [(name, f) for f in a["findings"]]
        for k, v in a["verdicts"].items():
            tot[k] = tot.get(k, 0) + v
        if a["paths"] == 0 and not a["errors"]:
            rep.inconc(f"{name}: no feasible path")
    n_ob = sum(tot.values())
    n_ok = sum(v for k, v in tot.items() if k.endswith(":valid"))
    rep.oblige(n_ok)
    rep.oblige(n_ob - n_ok, ok=False)
    rep.distinct = rep.evaluations
    seen = set()
    for part, f in findings:
        if f["verdict"] != "cex":
            rep.inconc(f"{part}/{f['clause']}: solver verdict {f['verdict']}")
            continue
        w = f["witness"]
        rep.replays += 1
        if part == "steps":
            bad = replay_steps(w)
            if bad:
                key = ("steps", tuple(w["steps"]))
                if key not in seen and len(seen) < 6:
                    seen.add(key)
                    rep.violation(f"clean_text(text, {w['steps']}): {bad[:2]}", {"kind": "steps", "witness": w})
            else:
                rep.spurious += 1
                rep.inconc(f"steps model did not reproduce: {w}")
        else:
            bad, got = replay_clean(w)
            if bad:
                key = (part, tuple(bad))
                if key not in seen:
                    seen.add(key)
                    rep.violation(f"{part}({w['text']!r}) -> {got!r}: {bad}", {"kind": "clean", "witness": w})
            else:
                rep.spurious += 1
                rep.inconc(f"{part}/{f['clause']}: model did not reproduce: {w}")
    rex.save_cache()
    return rep.finish(
        explanation=f"(1) symbolic execution of the real clean_text on all step lists <= 3 with abstract cleaners and symbolic text emptiness; (2) symbolic execution of the three real text cleaners on strings of <= {N} symbolic code points, their re.sub executed by a priority-exact backtracking matcher whose character tests are z3 queries with class tables taken from the runtime; per path: idempotence and 'exactly the runs are replaced, everything else kept in order' against a character-level specification.",
        technique="symbolic execution of the Python source with bounded symbolic character arrays + symbolic regex matcher; z3 decides every character-class test",
    )


def replay_file(path):
    import json

    r = json.load(open(path))["replay"]
    bad = replay_steps(r["witness"]) if r["kind"] == "steps" else replay_clean(r["witness"])[0]
    print(bad)
    return 1 if bad else 0
