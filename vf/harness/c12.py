"""C12 — the token stream partitions the text.

Symbolically executes the real source of Tokenizer.tokenize, Token.merge,
CitationToken.merge and token_is_from_nominative_reporter on K candidate
tokens whose offsets, kinds and generator order are arbitrary; the text is a
symbolic-length string and every token's data is the slice text[start:end].
"""
import collections
import re

import z3

from vf import common, symex
from vf.symex import SInt, TStr, lift_int, mval

KINDS = ["cite_nominative", "cite_us", "cite_us_short", "cite_nominative_variation", "cite_us_g2", "stop_v", "id", "section", "paragraph"]


def _editions():
    import eyecite.tokenizers as T

    nom = [e for v in T.EDITIONS_LOOKUP.values() for e in v if e.reporter.short_name in T.NOMINATIVE_REPORTER_NAMES]
    us = T.EDITIONS_LOOKUP["U.S."]
    if not nom or not us:
        raise symex.NotEncodable("reporters-db has no nominative / U.S. edition")
    return nom[0], us[0]


def build_token(kind, data, start, end):
    """a real token object of the given abstract kind (used for the symbolic run and for the replay)."""
    import eyecite.models as M

    nom, us = _editions()
    g1 = {"volume": "1", "reporter": "R", "page": "2"}
    g2 = {"volume": "1", "reporter": "R", "page": "3"}
    if kind == "cite_nominative":
        return M.CitationToken(data, start, end, groups=dict(g1), exact_editions=(nom,))
    if kind == "cite_us":
        return M.CitationToken(data, start, end, groups=dict(g1), exact_editions=(us,))
    if kind == "cite_us_short":
        return M.CitationToken(data, start, end, groups=dict(g1), exact_editions=(us,), short=True)
    if kind == "cite_nominative_variation":
        return M.CitationToken(data, start, end, groups=dict(g1), variation_editions=(nom,))
    if kind == "cite_us_g2":
        return M.CitationToken(data, start, end, groups=dict(g2), exact_editions=(us,))
    if kind == "stop_v":
        return M.StopWordToken(data, start, end, groups={"stop_word": "v"})
    if kind == "id":
        return M.IdToken(data, start, end, groups={})
    if kind == "section":
        return M.SectionToken(data, start, end, groups={})
    if kind == "paragraph":
        return M.ParagraphToken(data, start, end, groups={})
    raise ValueError(kind)


class H(common.Harness):
    def __init__(self, params):
        super().__init__(params)
        import eyecite.tokenizers as T

        self.T = T
        self.K = params["K"]
        self.kinds = params.get("kinds", KINDS)
        self.n = z3.Int("n")
        self.eng.assume(self.n >= 0)
        self.text = TStr.base(self.n)
        # append_text is replaced by its summary (proved separately in C12's
        # append_text lemma): it appends pieces whose concatenation is its argument
        self.interp.stubs[T.Tokenizer.append_text] = lambda tokens, s: tokens.append(s)

    def run(self):
        eng = self.eng
        toks = []
        self.sym = []
        exts = []
        harness = self

        class AbsExtractor:
            """an extractor that finds exactly one candidate; the token is built from the text it is GIVEN
            (so a tokenizer that hands a transformed copy of the text to its extractors is noticed)."""

            def __init__(self_, kind, s, e):
                self_.kind, self_.s, self_.e = kind, s, e

            def get_matches(self_, text):
                return [text]

            def get_token(self_, m, offset=0):
                data = m.getitem(slice(SInt(self_.s), SInt(self_.e))) if isinstance(m, TStr) else m
                t = build_token(self_.kind, data, SInt(self_.s), SInt(self_.e))
                toks.append(t)
                return t

        for i in range(self.K):
            s, e = z3.Int(f"s{i}"), z3.Int(f"e{i}")
            eng.add(0 <= s, s < e, e <= self.n)
            k = eng.choose([z3.Int(f"k{i}") == j for j in range(len(self.kinds))])
            exts.append(AbsExtractor(self.kinds[k], s, e))
            self.sym.append((self.kinds[k], s, e))
        # the real Tokenizer.extract_tokens / get_extractors run over the abstract extractors
        tk = self.T.Tokenizer(extractors=exts)
        all_tokens, cts = self.interp.call(self.T.Tokenizer.tokenize, (tk, self.text), {})
        return toks, all_tokens, cts

    def witness(self, m):
        return {"n": mval(m, self.n), "tokens": [(k, mval(m, s), mval(m, e)) for k, s, e in self.sym]}

    def describe(self, kind, out):
        m = self.eng.path_model()
        return {"path_model": self.witness(m) if m is not None else None, "outcome": kind}

    def judge(self, kind, out):
        if kind == "exc":
            return [self.check("no_exception:" + type(out).__name__, False, self.witness)]
        toks, all_tokens, cts = out
        fs = []
        cat = TStr([], self.n)
        for x in all_tokens:
            cat = cat + (x.data if isinstance(x, collections.UserString) else x)
        fs.append(self.check("concat_equals_text", cat.covers_base(), self.witness))
        sp = [t for _, t in cts]
        ordered = z3.And(*[lift_int(a.end) <= lift_int(b.start) for a, b in zip(sp, sp[1:])]) if len(sp) > 1 else z3.BoolVal(True)
        fs.append(self.check("specials_increasing_disjoint", ordered, self.witness))
        # offsets unchanged and index their own text
        own = []
        ok_identity = True
        for t in sp:
            j = [i for i, x in enumerate(toks) if x is t]
            if len(j) != 1:
                ok_identity = False
                continue
            _, s, e = self.sym[j[0]]
            sg = t.data.single() if isinstance(t.data, TStr) and not t.data.derived else None
            if sg is None:
                # the token's text is not a slice of the document's own text
                own.append(z3.BoolVal(False))
                continue
            own.append(z3.And(lift_int(t.start) == s, lift_int(t.end) == e, sg[0] == s, sg[1] == e))
        fs.append(self.check("special_is_input_token", z3.BoolVal(ok_identity), self.witness))
        fs.append(self.check("offsets_index_own_text", z3.And(*own) if own else z3.BoolVal(True), self.witness))
        idx_ok = all(0 <= i < len(all_tokens) and all_tokens[i] is t for i, t in cts) and [t for t in all_tokens if isinstance(t, collections.UserString)] == sp if not any(isinstance(x, SInt) for i, _ in cts for x in [i]) else False
        # (identity comparison of the two lists)
        specials = [t for t in all_tokens if isinstance(t, collections.UserString)]
        idx_ok = len(specials) == len(sp) and all(a is b for a, b in zip(specials, sp)) and all(isinstance(i, int) and 0 <= i < len(all_tokens) and all_tokens[i] is t for i, t in cts)
        fs.append(self.check("index_list_exact", z3.BoolVal(idx_ok), self.witness))
        return fs


class HAppend(common.Harness):
    """lemma: Tokenizer.append_text(tokens, text) only appends, the appended pieces are " " or non-empty
    space-free words, and their concatenation is `text` - for every text of <= N symbolic characters."""

    def __init__(self, params):
        super().__init__(params)
        import eyecite.tokenizers as T

        from vf import symre

        self.T, self.symre = T, symre
        self.N = params["N"]
        symre.install(self.interp)

    def run(self):
        eng = self.eng
        n = 1 + eng.choose([z3.Int("len") == k for k in range(1, self.N + 1)])
        s = self.symre.CStr.fresh(eng, n)
        self.s = s
        sentinel = object()
        tokens = [sentinel]
        self.interp.call(self.T.Tokenizer.append_text, (tokens, s), {})
        return sentinel, tokens

    def witness(self, m):
        return {"text": self.s.concrete(m)}

    def describe(self, kind, out):
        m = self.eng.path_model()
        return self.witness(m) if m is not None else {}

    def judge(self, kind, out):
        if kind == "exc":
            return [self.check("append_text:no_exception:" + type(out).__name__, False, self.witness)]
        sentinel, tokens = out
        CStr = self.symre.CStr
        ok = len(tokens) >= 1 and tokens[0] is sentinel
        cat = CStr([])
        shape = True
        for p in tokens[1:]:
            if isinstance(p, str):
                p = CStr.lit(p)
            if not isinstance(p, CStr) or len(p) == 0:
                shape = False
                break
            is_space = len(p) == 1 and self.eng.implied(p.chars[0] == 32) if not isinstance(p.chars[0], int) else (len(p) == 1 and p.chars[0] == 32)
            if not is_space:
                for ch in p.chars:
                    free = (ch != 32) if isinstance(ch, int) else self.eng.implied(ch != 32)
                    if not free:
                        shape = False
            cat = cat + p
        same = ok and shape and bool(self.symre.same(cat, self.s, self.eng))
        return [
            self.check("append_text:only_appends", z3.BoolVal(ok), self.witness),
            self.check("append_text:pieces_are_space_or_spacefree_words", z3.BoolVal(shape), self.witness),
            self.check("append_text:concatenation_is_argument", z3.BoolVal(same), self.witness),
        ]


class HDoc(common.Harness):
    """Document.tokenize hands the document's own plain text to the tokenizer and stores what it returns."""

    def __init__(self, params):
        super().__init__(params)
        import eyecite.models as M

        self.M = M

    def run(self):
        n = z3.Int("n")
        self.eng.add(n >= 0)
        text = TStr.base(n)
        seen = []

        class Tk:
            def tokenize(self_, t):
                seen.append(t)
                return (["words"], ["tokens"])

        doc = self.interp.instantiate(self.M.Document, (), {"plain_text": text})
        self.interp.call(self.M.Document.tokenize, (doc,), {"tokenizer": Tk()})
        return text, seen, doc

    def witness(self, m):
        return {}

    def describe(self, kind, out):
        return {"outcome": kind}

    def judge(self, kind, out):
        if kind == "exc":
            return [self.check("document:no_exception:" + type(out).__name__, False, self.witness)]
        text, seen, doc = out
        ok = len(seen) == 1 and isinstance(seen[0], TStr) and not seen[0].derived and seen[0].key() == text.key() and doc.words == ["words"] and doc.citation_tokens == ["tokens"] and isinstance(doc.plain_text, TStr) and doc.plain_text.key() == text.key() and not doc.plain_text.derived
        return [self.check("document:tokenizer_is_given_the_documents_own_text", z3.BoolVal(bool(ok)), self.witness)]


def make(params):
    if params.get("lemma") == "append_text":
        return HAppend(params)
    if params.get("lemma") == "document":
        return HDoc(params)
    return H(params)


def group1_side_condition():
    """the stub contract 'a candidate token has 0 <= start < end' rests on Token.from_match reading group 1:
    every installed extractor pattern has a group 1 that takes part in every match and cannot be empty.
    Read off each pattern's AST. returns (n, offenders)."""
    import re._constants as sc
    import re._parser as sp

    import eyecite.tokenizers as T

    bad = []
    for i, e in enumerate(T.EXTRACTORS):
        p = sp.parse(e.regex, e.flags)

        def mandatory_g1(seq):
            for op, av in seq:
                if op == sc.SUBPATTERN:
                    if av[0] == 1:
                        return sp.SubPattern(p.state, list(av[3])).getwidth()[0]
                    r = mandatory_g1(av[3])
                    if r is not None:
                        return r
                elif op == sc.BRANCH:
                    rs = [mandatory_g1(b) for b in av[1]]
                    if all(r is not None for r in rs):
                        return min(rs)
                elif op in (sc.MAX_REPEAT, sc.MIN_REPEAT) and av[0] >= 1:
                    r = mandatory_g1(av[2])
                    if r is not None:
                        return r
            return None

        w = mandatory_g1(p)
        if w is None or w < 1:
            bad.append((i, e.regex[:60], w))
    return len(T.EXTRACTORS), bad


def replay_append(w):
    import eyecite.tokenizers as T

    toks = ["<sentinel>"]
    try:
        T.Tokenizer.append_text(toks, w["text"])
    except Exception as ex:
        return ["append_text:no_exception:" + type(ex).__name__], None
    bad = []
    if toks[0] != "<sentinel>":
        bad.append("append_text:only_appends")
    if any(not (p == " " or (p and " " not in p)) for p in toks[1:]):
        bad.append("append_text:pieces_are_space_or_spacefree_words")
    if "".join(toks[1:]) != w["text"]:
        bad.append("append_text:concatenation_is_argument")
    return bad, toks[1:]


# ---------------------------------------------------------------- replay on the real code
_ALPHABET = None


def distinct_text(n, avoid=" "):
    """a text of n pairwise distinct characters (letters/digits first)."""
    global _ALPHABET
    if _ALPHABET is None:
        pool = [chr(c) for c in range(0x21, 0x7F)] + [chr(c) for c in range(0xC0, 0x250)] + [chr(c) for c in range(0x400, 0x500)]
        _ALPHABET = [c for c in pool if c.isalnum()] + [c for c in pool if not c.isalnum()]
    if n > len(_ALPHABET):
        raise ValueError("text too long to realise with distinct characters")
    return "".join(_ALPHABET[:n])


def concrete_check(text, all_tokens, cts, inputs=None):
    """the property, evaluated on a concrete tokenizer result. returns list of failed clauses."""
    bad = []
    if "".join(str(t) for t in all_tokens) != text:
        bad.append("concat_equals_text")
    sp = [t for _, t in cts]
    for a, b in zip(sp, sp[1:]):
        if not a.end <= b.start:
            bad.append("specials_increasing_disjoint")
            break
    for t in sp:
        if not (0 <= t.start <= t.end <= len(text)) or text[t.start : t.end] != str(t):
            bad.append("offsets_index_own_text")
            break
    specials = [t for t in all_tokens if not isinstance(t, str)]
    if not (len(specials) == len(sp) and all(a is b for a, b in zip(specials, sp)) and all(0 <= i < len(all_tokens) and all_tokens[i] is t for i, t in cts)):
        bad.append("index_list_exact")
    return bad


def replay(w):
    """run the real Tokenizer.tokenize through the public API with custom extractors
    that produce exactly the candidate tokens of the model."""
    import eyecite.models as M
    import eyecite.tokenizers as T

    n = w["n"]
    text = distinct_text(n)
    extractors = []
    for kind, s, e in w["tokens"]:
        proto = build_token(kind, "x", 0, 1)
        extra = {}
        if isinstance(proto, M.CitationToken):
            extra = {"exact_editions": proto.exact_editions, "variation_editions": proto.variation_editions, "short": proto.short}
        groups = proto.groups

        def ctor(m, extra_, offset=0, cls=type(proto), groups=groups):
            start, end = m.span(1)
            return cls(m[1], start + offset, end + offset, groups=dict(groups), **extra_)

        extractors.append(M.TokenExtractor("(" + re.escape(text[s:e]) + ")", ctor, extra=extra))
    out = {}
    for name, cls in (("Tokenizer", T.Tokenizer), ("AhocorasickTokenizer", T.AhocorasickTokenizer)):
        try:
            all_tokens, cts = cls(extractors=extractors).tokenize(text)
        except Exception as ex:  # noqa
            out[name] = ["no_exception:" + type(ex).__name__]
            continue
        out[name] = concrete_check(text, all_tokens, cts)
    return text, out


# ---------------------------------------------------------------- interpreter validation
def test_strings(limit=120):
    import ast
    import glob

    out = []
    for p in sorted(glob.glob(common.REPO + "/tests/test_*.py")):
        try:
            tree = ast.parse(open(p).read())
        except Exception:
            continue
        for node in ast.walk(tree):
            if isinstance(node, ast.Constant) and isinstance(node.value, str) and 6 <= len(node.value) <= 400 and any(c.isdigit() for c in node.value):
                out.append(node.value)
    seen = set()
    res = []
    for s in out:
        if s not in seen:
            seen.add(s)
            res.append(s)
    step = max(1, len(res) // limit)
    return res[::step][:limit]


def selftest(rep):
    """run the interpreted tokenize and native tokenize on the repo's own test strings."""
    import eyecite.tokenizers as T

    eng = symex.Engine()
    symex.ENGINE = eng
    it = symex.Interp(eng)
    tk = T.default_tokenizer
    it.stubs[T.Tokenizer.extract_tokens] = lambda slf, text: list(T.Tokenizer.extract_tokens(slf, text))
    n = 0
    for s in test_strings():
        native = tk.tokenize(s)
        res = [None]

        def run():
            res[0] = it.call(T.Tokenizer.tokenize, (tk, s), {})

        outs = list(eng.explore(run))
        if len(outs) != 1 or outs[0][0] != "ok":
            rep.inconc(f"interpreter self-test: tokenize({s!r}) forked or raised under the interpreter: {outs[:1]}")
            return n
        a, b = res[0]
        if [str(x) for x in a] != [str(x) for x in native[0]] or [(i, str(t), t.start, t.end, type(t).__name__) for i, t in b] != [(i, str(t), t.start, t.end, type(t).__name__) for i, t in native[1]]:
            rep.inconc(f"interpreter self-test: interpreted tokenize differs from CPython on {s!r}")
            return n
        n += 1
    return n


PROBES = ["See Roe v. Wade, 410 U.S.\u00a0113 (1973)", "1\u00a0U.S. 1", "Id.\u00a0at 5; Foo, supra,\u00a0at 6", "See 1\u202fU.S.\u202f1.", "SEE ID. AT 5", "1 U.S.\t1 and 2\tF.2d 3"]

REGRESSION = [
    # fixed: d425be7
    "Shapiro v. Thompson, 394 U. S. 618",
    "See Holmes v. Thompson, 1 Cooke 2, 3 U.S. 4; Chase, 5 Bee 6.",
    "Foo supra,§, 5 bar",
]


def check(rep):
    import eyecite.tokenizers as T

    K = 2 if rep.tier == "quick" else 3
    rep.bounds.append(f"K = {K} candidate tokens returned by extract_tokens (offsets, kinds, generator order arbitrary; text length unbounded)")
    rep.outside.append(f"more than {K} candidate tokens interacting; token kinds other than {KINDS}; what the extractors match (C13/C14)")
    rep.stubs.append("extractors: K abstract extractors each reporting one candidate with 0 <= start < end <= len(text) whose data is the slice [start:end] of the text the tokenizer hands to it (Tokenizer.extract_tokens and get_extractors are interpreted)")
    rep.stubs.append("Tokenizer.append_text: summary 'appends pieces whose concatenation is the argument' (proved on the real source by the append_text lemma below)")
    n_self = selftest(rep)
    rep.sections["interpreter_selftest"] = {"strings_agreeing_with_cpython": n_self}
    agg = common.explore_split("vf.harness.c12", {"K": K}, depth=2 if K == 2 else 3)
    rep.merge_explore("tokenize", agg)
    if K == 2:
        # slice of the next size: three candidates over the kinds of the nominative-reporter branch (a kept
        # nominative citation, an ordinary citation, a section mark) - all nine kinds at K = 3 are 346 k paths
        SL = ["cite_nominative", "cite_us", "section"]
        rep.bounds.append(f"plus the slice K = 3 over the kinds {SL}")
        aggs = common.explore_split("vf.harness.c12", {"K": 3, "kinds": SL}, depth=3)
        rep.merge_explore("tokenize_3_slice", aggs)
        for k_, v_ in aggs["verdicts"].items():
            agg["verdicts"][k_] = agg["verdicts"].get(k_, 0) + v_
        agg["findings"] = agg["findings"] + aggs["findings"]
        agg["paths"] += aggs["paths"]
        agg["errors"] = agg["errors"] + aggs["errors"]
    clauses = ["concat_equals_text", "specials_increasing_disjoint", "special_is_input_token", "offsets_index_own_text", "index_list_exact"]
    # vacuity: assertion reached on > 0 paths for every clause
    for c in clauses:
        reached = sum(v for k, v in agg["verdicts"].items() if k.startswith(c + ":"))
        if reached == 0 and not agg["errors"]:
            rep.inconc(f"vacuous: clause {c} never reached")
    rep.sections["tokenize"]["reachability_twin"] = _twin(K)
    if not rep.sections["tokenize"]["reachability_twin"]["violated_as_expected"]:
        rep.inconc("reachability twin did not fail: harness does not reach its assertion")
    seen = set()
    for f in agg["findings"]:
        if f["verdict"] != "cex":
            rep.inconc(f"{f['clause']}: solver verdict {f['verdict']}")
            continue
        w = f["witness"]
        rep.replays += 1
        try:
            text, res = replay(w)
        except ValueError as ex:
            rep.inconc(f"cannot realise model {w}: {ex}")
            continue
        failed = sorted({c for v in res.values() for c in v})
        if failed:
            key = (tuple(failed), tuple(k for k, _, _ in w["tokens"]))
            if key in seen:
                continue
            seen.add(key)
            rep.violation(f"tokenize on text {text!r} with candidate tokens {w['tokens']}: clauses violated on real code {res} (symbolic clause {f['clause']})", {"kind": "tokens", "witness": w, "text": text})
        else:
            # the token text was taken from a transformed copy of the input: distinct plain characters cannot
            # show that; probe with characters that "normalising" copies change
            hit = None
            if f["clause"] == "offsets_index_own_text":
                for t in PROBES:
                    for name, cls in (("Tokenizer", T.Tokenizer), ("AhocorasickTokenizer", T.AhocorasickTokenizer)):
                        try:
                            bad = concrete_check(t, *cls().tokenize(t))
                        except Exception as ex:
                            bad = ["no_exception:" + type(ex).__name__]
                        if bad:
                            hit = (name, t, bad)
                            break
                    if hit:
                        break
            if hit:
                if ("probe", hit[0]) not in seen:
                    seen.add(("probe", hit[0]))
                    rep.violation(f"{hit[0]}().tokenize({hit[1]!r}) violates {hit[2]} (symbolic clause {f['clause']}: a token's text is not a slice of the input)", {"kind": "text", "text": hit[1], "tokenizer": hit[0]})
            else:
                rep.spurious += 1
                rep.inconc(f"model for clause {f['clause']} did not reproduce on the real code: {w}")
    n_ob = sum(v for k, v in agg["verdicts"].items())
    n_ok = sum(v for k, v in agg["verdicts"].items() if k.endswith(":valid"))
    rep.oblige(n_ob - n_ok, ok=False)
    rep.oblige(n_ok)
    rep.distinct = agg["paths"]
    # the append_text lemma that justifies the summary used above
    NA = 6 if rep.tier == "quick" else 9
    rep.bounds.append(f"append_text lemma: every text of 1..{NA} symbolic code points")
    agg_a = common.explore_split("vf.harness.c12", {"lemma": "append_text", "N": NA}, depth=4)
    rep.merge_explore("append_text_lemma", agg_a)
    n_ob = sum(agg_a["verdicts"].values())
    n_ok = sum(v for k, v in agg_a["verdicts"].items() if k.endswith(":valid"))
    rep.oblige(n_ob - n_ok, ok=False)
    rep.oblige(n_ok)
    seen_a = set()
    for f in agg_a["findings"]:
        if f["verdict"] != "cex":
            rep.inconc(f"append_text lemma {f['clause']}: solver verdict {f['verdict']}")
            continue
        rep.replays += 1
        bad, got = replay_append(f["witness"])
        if bad:
            if tuple(bad) not in seen_a:
                seen_a.add(tuple(bad))
                txt = f["witness"]["text"]
                # the same text through the public tokenizer: plain text has no extractor matches
                a, b = T.default_tokenizer.tokenize("zq" + txt + "qz")
                conc = concrete_check("zq" + txt + "qz", a, b)
                rep.violation(f"Tokenizer.append_text([], {txt!r}) appended {got!r}: {bad}; default_tokenizer.tokenize({'zq' + txt + 'qz'!r}) violates {conc}", {"kind": "text", "text": "zq" + txt + "qz", "tokenizer": "AhocorasickTokenizer"})
        else:
            rep.spurious += 1
            rep.inconc(f"append_text lemma: model did not reproduce: {f['witness']}")
    agg_d = common.explore_split("vf.harness.c12", {"lemma": "document"}, depth=2, procs=1)
    rep.merge_explore("document_tokenize", agg_d)
    n_ob = sum(agg_d["verdicts"].values())
    n_ok = sum(v for k, v in agg_d["verdicts"].items() if k.endswith(":valid"))
    rep.oblige(n_ok)
    rep.oblige(n_ob - n_ok, ok=False)
    if any(f["verdict"] == "cex" for f in agg_d["findings"]):
        # replay: texts with characters a "normalising" copy would change, through get_citations
        from eyecite import get_citations

        hit = None
        for t in ("Roe v. Wade, 410\u00a0U.S.\u00a0113, 120 (1973)", "See 1\u202fU.S.\u202f1.", "Id.,\u00a0at\u00a05", "FOO V. BAR, 1 U.S. 1", "see 1 u.s. 1"):
            rep.replays += 1
            for cit in get_citations(t):
                s0, s1 = cit.span()
                if not t[s0:s1].startswith(cit.matched_text()):
                    hit = (t, cit.matched_text(), t[s0:s1])
        if hit:
            rep.violation(f"get_citations({hit[0]!r}): a token's text {hit[1]!r} is not the text at its offsets {hit[2]!r} (the tokenizer was not given the document's own text)", {"kind": "text", "text": hit[0], "tokenizer": "AhocorasickTokenizer"})
        else:
            rep.inconc("Document.tokenize does not hand its own plain text to the tokenizer, but the probe texts show no offset/text mismatch")
    n_ext, g1_bad = group1_side_condition()
    rep.sections["group1_side_condition"] = {"extractors": n_ext, "offenders": g1_bad[:3]}
    rep.oblige(n_ext - len(g1_bad))
    if g1_bad:
        rep.oblige(len(g1_bad), ok=False)
        i, rx_, w_ = g1_bad[0]
        # an extractor whose group 1 may be absent or empty: find a text showing a token with start >= end / a crash
        import eyecite.tokenizers as T2

        e = T2.EXTRACTORS[i]
        shown = False
        for probe in ("", " ", "x", "1 U.S. 1", "§", "\n"):
            try:
                toks = [e.get_token(m) for m in e.get_matches(probe)]
                if any(not (t.start < t.end) for t in toks):
                    rep.violation(f"extractor {rx_!r} yields a token with start >= end on {probe!r}", {"kind": "text", "text": probe, "tokenizer": "Tokenizer"})
                    shown = True
                    break
            except Exception as ex:
                rep.violation(f"extractor {rx_!r}: Token.from_match raised {type(ex).__name__} on {probe!r} (group 1 did not take part in the match)", {"kind": "text", "text": probe, "tokenizer": "Tokenizer"})
                shown = True
                break
        if not shown:
            rep.inconc(f"{len(g1_bad)} extractor patterns whose group 1 may be absent or empty (e.g. {rx_!r}); no probe text exposes it")
    # regression witnesses (fixed findings) through the shipped tokenizers
    toks = {"Tokenizer": T.Tokenizer(), "AhocorasickTokenizer": T.default_tokenizer}
    for s in REGRESSION:
        for name, tk in toks.items():
            all_tokens, cts = tk.tokenize(s)
            bad = concrete_check(s, all_tokens, cts)
            rep.replays += 1
            if bad:
                rep.violation(f"{name}.tokenize({s!r}) violates {bad}", {"kind": "text", "text": s, "tokenizer": name})
    return rep.finish(
        explanation=(
            "Path-exhaustive symbolic execution (z3, linear integer arithmetic) of the real source of Tokenizer.tokenize and the token merge "
            f"methods on {K} arbitrary candidate tokens over a text of arbitrary length; on every feasible path the four clauses of C12 are "
            "discharged as validity queries; counter-models are replayed through the public API (custom TokenExtractors on a text of distinct characters)."
        ),
        technique="symbolic execution of the Python source (AST interpreter) + z3 validity queries per path; bounded in number of candidate tokens only",
    )


def _twin(K):
    """reachability twin: same exploration, property False, must be violated."""
    h = H({"K": min(K, 2)})
    symex.ENGINE = h.eng
    hit = 0
    paths = 0
    for kind, out in h.eng.explore(h.run):
        paths += 1
        v, _ = h.eng.valid(False)
        if v == "cex":
            hit += 1
        if paths >= 20:
            break
    return {"paths_checked": paths, "violated_as_expected": hit == paths and paths > 0}


def replay_file(path):
    import json

    d = json.load(open(path))["replay"]
    import eyecite.tokenizers as T

    if d["kind"] == "tokens":
        text, res = replay(d["witness"])
        print(text, res)
        return 1 if any(res.values()) else 0
    tk = T.Tokenizer() if d["tokenizer"] == "Tokenizer" else T.default_tokenizer
    bad = concrete_check(d["text"], *tk.tokenize(d["text"]))
    print(d["text"], bad)
    return 1 if bad else 0
