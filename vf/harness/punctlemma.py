"""Lemma behind the `strip_punct: identity` stub of the resolver harness (C05 / C07 / C04).

The real eyecite.utils.strip_punct (eleven regex substitutions and a strip) is executed on every string of
<= N arbitrary characters (all of Unicode; symbolic regex matcher E3):
  * it never raises (C04);
  * it only deletes: the result is a subsequence of the input's characters, so an antecedent is never matched
    through characters that were not written (C07: "only if ... party names contain the short form's antecedent");
  * on a name made of word characters only (what the resolver harness calls "names without punctuation") it is
    the identity - the assumption the resolver harness makes.
"""
import z3

from vf import common, rex, symex, symre


class HPunct(common.Harness):
    def __init__(self, params):
        super().__init__(params)
        import eyecite.utils as U

        self.U = U
        self.N = params["N"]
        symre.install(self.interp)

    def run(self):
        eng = self.eng
        n = eng.choose([z3.Int("len") == k for k in range(self.N + 1)])
        self.chars = [z3.Int(f"c{i}") for i in range(n)]
        for c in self.chars:
            eng.add(c >= 0, c <= 0x10FFFF)
        self.s = symre.CStr(list(self.chars)) if n else ""
        return self.interp.call(self.U.strip_punct, (self.s,), {})

    def witness(self, m):
        return {"text": "".join(chr(symex.mval(m, c) or 0) for c in self.chars)}

    def describe(self, kind, out):
        m = self.eng.path_model()
        return self.witness(m) if m is not None else {}

    def judge(self, kind, out):
        if kind == "exc":
            return [self.check("C04:strip_punct_raises:" + type(out).__name__, False, self.witness)]
        res = list(out.chars) if isinstance(out, symre.CStr) else [ord(ch) for ch in out]
        # subsequence by identity of the character terms (a literal character must equal the next input character)
        i, ok = 0, True
        conds = []
        for r in res:
            found = False
            while i < len(self.chars):
                c = self.chars[i]
                i += 1
                if r is c or (z3.is_expr(r) and r.eq(c)):
                    found = True
                    break
            if not found:
                ok = False
                break
        word = rex.table(r"\w", 0)
        allw = z3.And(*[z3.Or(*[z3.And(c >= a, c <= b) for a, b in word]) for c in self.chars]) if self.chars else z3.BoolVal(True)
        same = len(res) == len(self.chars) and all((r is c) or (z3.is_expr(r) and r.eq(c)) for r, c in zip(res, self.chars))
        return [
            self.check("C07:strip_punct_only_deletes_characters", z3.BoolVal(ok), self.witness),
            self.check("C07:strip_punct_is_the_identity_on_word_character_names", z3.Implies(allw, z3.BoolVal(same)), self.witness),
        ]


def make(params):
    return HPunct(params)


def real_check(text):
    from eyecite.utils import strip_punct

    try:
        out = strip_punct(text)
    except Exception as ex:
        return ["C04:strip_punct_raises:" + type(ex).__name__]
    bad = []
    it = iter(text)
    if not all(ch in it for ch in out):
        bad.append("C07:strip_punct_only_deletes_characters")
    import re

    if re.fullmatch(r"\w*", text) and out != text:
        bad.append("C07:strip_punct_is_the_identity_on_word_character_names")
    return bad


def fold(rep, pid):
    quick = rep.tier == "quick"
    N = 2 if quick else 3  # measured: 143 paths / 21 s at 2, 1,684 paths / 6 minutes at 3
    rep.bounds.append(f"strip_punct lemma: every string of <= {N} arbitrary characters")
    agg = common.explore_split("vf.harness.punctlemma", {"N": N}, depth=3)
    rep.merge_explore("strip_punct_lemma", agg)
    pref = ("C04:",) if pid == "C04" else ("C07:", "C04:")
    n_ob = sum(v for k, v in agg["verdicts"].items() if k.startswith(pref))
    n_ok = sum(v for k, v in agg["verdicts"].items() if k.startswith(pref) and k.endswith(":valid"))
    rep.oblige(n_ok)
    rep.oblige(n_ob - n_ok, ok=False)
    shown = 0
    for f in agg["findings"]:
        if not f["clause"].startswith(pref):
            continue
        if f["verdict"] != "cex":
            rep.inconc(f"strip_punct lemma {f['clause']}: solver verdict {f['verdict']}")
            continue
        t = f["witness"]["text"]
        rep.replays += 1
        bad = [b for b in real_check(t) if b.startswith(pref)]
        if bad:
            if shown < 3:
                from eyecite.utils import strip_punct

                try:
                    got = repr(strip_punct(t))
                except Exception as ex:
                    got = "raised " + type(ex).__name__
                rep.violation(f"strip_punct({t!r}) -> {got}: {bad}", {"kind": "punct", "text": t})
            shown += 1
        else:
            rep.spurious += 1
            rep.inconc(f"strip_punct lemma: model {t!r} did not reproduce ({f['clause']})")


def replay(r):
    bad = real_check(r["text"])
    print(bad)
    return 1 if bad else 0
