"""Contract stubs for the C regex engines on symbolic texts (TStr).

A stubbed search/match/finditer returns `None` or a match whose span lies inside
the subject; anchors that the *pattern itself* carries at its ends (as built by
match_on_tokens: ^(?:...) and (?:...)$) pin the start/end; every named group of
the real compiled pattern is `None` or a slice inside the match, decided lazily
(forked on first inspection).  Width facts (min/max match length) are read from
the pattern's own AST via re._parser .getwidth()."""
import re
import re._constants as sc
import re._parser as sp

import z3

from vf import symex
from vf.symex import SInt, TStr, NotEncodable, lift_int


def _subject(text, n):
    if isinstance(text, TStr):
        return text
    if isinstance(text, str):
        return TStr([("lit", text)], n)
    raise NotEncodable(f"regex subject {type(text)}")


class SymMatch:
    def __init__(self, eng, subj, s, e, names, tag):
        self.eng, self.subj, self.s, self.e = eng, subj, s, e  # s, e: absolute offsets in the base text
        self.g = {nm: "lazy" for nm in names}
        self.tag = tag
        lo, hi = subj.single()
        self.lo = lo

    def __bool__(self):
        return True

    def _grp(self, k):
        if k == 0:
            return (self.s, self.e)
        if k not in self.g:
            raise IndexError(f"no such group {k}")
        if self.g[k] == "lazy":
            b = self.eng.fresh_bool(f"grp_{self.tag}_{k}")
            if self.eng.choose([b, z3.Not(b)]) == 0:
                gs, ge = self.eng.fresh_int(f"gs_{k}"), self.eng.fresh_int(f"ge_{k}")
                self.eng.add(self.s <= gs, gs <= ge, ge <= self.e)
                self.g[k] = (gs, ge)
            else:
                self.g[k] = None
        return self.g[k]

    def constrain_group(self, k, fn):
        """harness hook: add facts derived from the pattern AST about group k (if it participates)."""
        v = self._grp(k)
        if v is not None:
            fn(v[0], v[1], self.s, self.e)

    def span(self, k=0):
        v = self._grp(k)
        if v is None:
            return (-1, -1)
        return (SInt(z3.simplify(v[0] - self.lo)), SInt(z3.simplify(v[1] - self.lo)))

    def start(self, k=0):
        return self.span(k)[0]

    def end(self, k=0):
        return self.span(k)[1]

    def group(self, k=0):
        v = self._grp(k)
        if v is None:
            return None
        return TStr.sub(v[0], v[1], self.subj.n)

    __getitem__ = group

    def groups(self):
        return tuple(self.group(k) for k in self.g)

    def groupdict(self):
        return {k: self.group(k) for k in self.g if isinstance(k, str)}


def pattern_info(pattern, flags, module):
    """(names, anchored_start, anchored_end, minw, maxw) from the real compiled pattern / its AST."""
    c = module.compile(pattern, flags)
    names = list(c.groupindex)
    a0 = pattern.startswith("^")
    a1 = pattern.endswith("$") and not pattern.endswith("\\$")
    minw = maxw = None
    if module is re:
        try:
            p = sp.parse(pattern, flags)
            minw, maxw = p.getwidth()
            if maxw >= sc.MAXREPEAT or maxw >= 2**31:
                maxw = None
        except Exception:
            pass
    return names, a0, a1, minw, maxw


def sym_search(eng, pattern, text, flags=0, module=re, n=None, may_fail=True, tag="m", newline_free=False):
    subj = _subject(text, n)
    if not subj.atoms:
        # empty subject: the result is whatever the real engine says on ""
        return module.search(pattern, "", flags)
    sg = subj.single()
    if sg is None:
        raise NotEncodable(f"regex on non-contiguous subject {subj}")
    lo, hi = sg
    names, a0, a1, minw, maxw = pattern_info(pattern, flags, module)
    if may_fail and always_matches(pattern, flags):
        may_fail = False
    if may_fail:
        b = eng.fresh_bool(f"match_{tag}")
        if eng.choose([b, z3.Not(b)]) == 1:
            return None
    s, e = eng.fresh_int(f"ms_{tag}"), eng.fresh_int(f"me_{tag}")
    eng.add(lo <= s, s <= e, e <= hi)
    if (a0 and not (flags & re.M)) or (newline_free and starts_with_dotstar(pattern, flags)):
        eng.add(s == lo)
    if a1 and not (flags & re.M):
        # `$` also matches before a final newline (unless the caller knows the subject has none)
        eng.add(e == hi if newline_free else z3.Or(e == hi, e == hi - 1))
    if minw is not None:
        eng.add(e - s >= minw)
    if maxw is not None:
        eng.add(e - s <= maxw)
    return SymMatch(eng, subj, s, e, names, tag)


class FirstLast:
    """result of list(finditer(...)) when the code only looks at [0], [-1] and truthiness."""

    def __init__(self, first, last):
        self.first, self.last = first, last

    def __bool__(self):
        return self.first is not None

    def __iter__(self):
        raise NotEncodable("iteration over a first/last match list")

    def __len__(self):
        raise NotEncodable("len of a first/last match list")

    def __getitem__(self, i):
        if self.first is None:
            raise IndexError("list index out of range")
        if i == 0:
            return self.first
        if i == -1:
            return self.last
        raise NotEncodable(f"match list index {i}")


def sym_finditer_first_last(eng, pattern, text, flags=0, module=re, n=None, tag="f"):
    """(first, last) of the non-overlapping left-to-right matches, or empty."""
    first = sym_search(eng, pattern, text, flags, module, n, tag=tag + "0")
    if first is None:
        return FirstLast(None, None)
    b = eng.fresh_bool(f"more_{tag}")
    if eng.choose([b, z3.Not(b)]) == 1:
        return FirstLast(first, first)
    last = sym_search(eng, pattern, text, flags, module, n, may_fail=False, tag=tag + "1")
    eng.add(last.s >= first.e, last.s > first.s)
    return FirstLast(first, last)


def whole_match_is_group1(pattern, flags=0):
    p = sp.parse(pattern, flags)
    items = list(p)
    return len(items) == 1 and items[0][0] == sc.SUBPATTERN and items[0][1][0] == 1


def _unwrap(seq):
    """drop non-capturing, flag-less group wrappers around a one-item sequence."""
    seq = list(seq)
    while len(seq) == 1 and seq[0][0] == sc.SUBPATTERN and seq[0][1][0] is None and not seq[0][1][1] and not seq[0][1][2]:
        seq = list(seq[0][1][3])
    return seq


def group1_shape(pattern, flags=0):
    """how capture group 1 lies in a match of `pattern`:
    ("whole",)            the pattern is exactly group 1 (possibly inside non-capturing wrappers);
    ("last", minw)        the pattern is  (G)+ / (G){a,b} with a >= 1: group 1 is the last iteration - it ends
                          where the match ends and starts at or after its start;
    None                  anything else (not modelled)."""
    seq = _unwrap(sp.parse(pattern, flags))
    if len(seq) == 1 and seq[0][0] == sc.SUBPATTERN and seq[0][1][0] == 1:
        return ("whole",)
    if len(seq) == 1 and seq[0][0] in (sc.MAX_REPEAT, sc.MIN_REPEAT) and seq[0][1][0] >= 1:
        sub = _unwrap(seq[0][1][2])
        if len(sub) == 1 and sub[0][0] == sc.SUBPATTERN and sub[0][1][0] == 1:
            minw = sp.SubPattern(sp.parse(pattern, flags).state, list(sub[0][1][3])).getwidth()[0]
            return ("last", minw, seq[0][1][1])
    return None


class _SubMatch:
    """match object handed to a replacement function / template: group 0 = text[s:e]; group 1 = the same
    slice when the pattern is one capture group, the last iteration text[gs:e] when it is a repeated group."""

    def __init__(self, s, e, n, gs=None):
        self.s, self.e, self.n = s, e, n
        self.gs = s if gs is None else gs

    def group(self, k=0):
        if k == 0:
            return TStr.sub(self.s, self.e, self.n)
        if k == 1:
            return TStr.sub(self.gs, self.e, self.n)
        raise IndexError("no such group")

    def start(self, k=0):
        return SInt(self.s)

    def end(self, k=0):
        return SInt(self.e)


def sym_sub_wrap(eng, pattern, repl, text, n, max_matches=2, tag="s"):
    """re.sub(pattern, repl, text) for a pattern that is exactly one capture group and a template
    of the form  X \\1 Y : every character of `text` is kept, X/Y are inserted around up to
    `max_matches` non-overlapping matches (more matches: BoundExceeded)."""
    shape = group1_shape(pattern)
    if shape is None:
        raise NotEncodable("re.sub stub needs a pattern that is one capture group or a repeated capture group")
    fn = None
    if callable(repl):
        # replacement function (interpreted): called once per match with a match object
        fn = repl
    else:
        tpl = sp.parse_template(repl, re.compile(pattern))  # raises re.error exactly when re.sub would
        # python 3.12: parse_template returns a list: literals and group indexes
        lits = tpl if isinstance(tpl, list) else None
        if lits is None:
            raise NotEncodable(f"re.sub template {repl!r}")

        def fn(m, lits=lits):
            out = TStr([], m.n)
            for x in lits:
                out = out + (x if isinstance(x, str) else m.group(x))
            return out

    subj = _subject(text, n)
    if not subj.atoms:
        return subj
    sg = subj.single()
    if sg is None:
        raise NotEncodable("re.sub on non-contiguous subject")
    lo, hi = sg
    minw, maxw = sp.parse(pattern).getwidth()
    # bound: at most max_matches substitutions (stated in the evidence as outside the claim)
    k = eng.choose([z3.Int(f"nsub_{tag}") == j for j in range(max_matches + 1)])
    out = TStr([], subj.n)
    cur = lo
    for j in range(k):
        s, e = eng.fresh_int(f"ss_{tag}{j}"), eng.fresh_int(f"se_{tag}{j}")
        eng.add(cur <= s, s + minw <= e, e <= hi)
        gs = None
        if shape[0] == "last" and shape[2] > 1:
            # group 1 = the last of >= 1 iterations, each at least shape[1] wide
            gs = eng.fresh_int(f"sg_{tag}{j}")
            eng.add(z3.Or(gs == s, gs >= s + shape[1]), gs + shape[1] <= e)
        piece = fn(_SubMatch(s, e, subj.n, gs))
        if isinstance(piece, str):
            piece = TStr([("lit", piece)] if piece else [], subj.n)
        if not isinstance(piece, TStr):
            raise NotEncodable(f"re.sub replacement returned {type(piece).__name__}")
        out = out + TStr.sub(cur, s, subj.n) + piece
        cur = e
    out = out + TStr.sub(cur, hi, subj.n)
    return out


# ---------------------------------------------------------------- facts read off the pattern's own AST
_FACTS = {}


def pattern_facts(pattern, flags=0):
    """{group name: {"at_start": bool, "width": (lo, hi|None)}} derived from the parsed pattern.

    at_start: whenever a group of that name participates it starts at the match start (nothing that can
    consume a character precedes it on any path through the pattern).  Duplicate names (regex module)
    are renamed for parsing; a fact is reported for a name only if it holds for all its copies."""
    key = (pattern, int(flags))
    if key in _FACTS:
        return _FACTS[key]
    from vf.symre import rename_duplicate_groups

    p2, back = rename_duplicate_groups(pattern)
    f = int(flags) & (re.I | re.X | re.S | re.M)
    parsed = sp.parse(p2, f)
    names = {gid: back.get(nm, nm) for nm, gid in parsed.state.groupdict.items()}
    at_start, width = {}, {}

    def maxw(seq):
        try:
            return sp.SubPattern(parsed.state, list(seq)).getwidth()[1]
        except Exception:
            return 1

    def walk(seq, consumed, in_loop):
        for op, av in seq:
            if op == sc.SUBPATTERN:
                gid, _, _, sub = av
                if gid is not None and gid in names:
                    nm = names[gid]
                    at_start[nm] = at_start.get(nm, True) and (not consumed) and (not in_loop)
                    lo, hi = sp.SubPattern(parsed.state, list(sub)).getwidth()
                    hi = None if hi >= sc.MAXREPEAT or hi >= 2**31 else hi
                    old = width.get(nm)
                    width[nm] = (lo, hi) if old is None else (min(lo, old[0]), None if (hi is None or old[1] is None) else max(hi, old[1]))
                walk(list(sub), consumed, in_loop)
                if maxw([(op, av)]) > 0:
                    consumed = True
            elif op == sc.BRANCH:
                any_c = False
                for b in av[1]:
                    walk(list(b), consumed, in_loop)
                    if maxw(list(b)) > 0:
                        any_c = True
                consumed = consumed or any_c
            elif op in (sc.MAX_REPEAT, sc.MIN_REPEAT):
                lo, hi, sub = av
                walk(list(sub), consumed, in_loop or hi > 1)
                if hi > 0 and maxw(list(sub)) > 0:
                    consumed = True
            elif op in (sc.ASSERT, sc.ASSERT_NOT):
                pass  # zero-width; (named groups inside look-arounds are not used by eyecite)
            elif op == sc.AT:
                pass
            else:
                consumed = True
        return consumed

    walk(list(parsed), False, False)

    # ordering: (a, b) in before  <=>  whenever both participate, a ends no later than b starts
    before, always = set(), set()

    def groups_in(seq):
        out = set()
        for op, av in seq:
            if op == sc.SUBPATTERN:
                if av[0] in names:
                    out.add(names[av[0]])
                out |= groups_in(list(av[3]))
            elif op == sc.BRANCH:
                for b in av[1]:
                    out |= groups_in(list(b))
            elif op in (sc.MAX_REPEAT, sc.MIN_REPEAT):
                out |= groups_in(list(av[2]))
        return out

    def order(seq, in_loop):
        items = list(seq)
        gs = [groups_in([it]) for it in items]
        if not in_loop:
            for i in range(len(items)):
                for j in range(i + 1, len(items)):
                    for a in gs[i]:
                        for b in gs[j]:
                            before.add((a, b))
        for op, av in items:
            if op == sc.SUBPATTERN:
                order(list(av[3]), in_loop)
            elif op == sc.BRANCH:
                for b in av[1]:
                    order(list(b), in_loop)
            elif op in (sc.MAX_REPEAT, sc.MIN_REPEAT):
                order(list(av[2]), in_loop or av[1] > 1)

    order(list(parsed), False)
    # a name that occurs on both sides of an ordering (duplicates in different alternatives) is dropped
    before = {(a, b) for a, b in before if (b, a) not in before and a != b}

    def mandatory(seq):
        out = set()
        for op, av in seq:
            if op == sc.SUBPATTERN:
                if av[0] in names:
                    out.add(names[av[0]])
                out |= mandatory(list(av[3]))
            elif op == sc.BRANCH:
                alts = [mandatory(list(b)) for b in av[1]]
                out |= set.intersection(*alts) if alts else set()
            elif op in (sc.MAX_REPEAT, sc.MIN_REPEAT) and av[0] >= 1:
                out |= mandatory(list(av[2]))
        return out

    always = mandatory(list(parsed))

    # first character of a group: code-point ranges, when the group's first item is a mandatory single character
    from vf import rex as _rex

    first = {}

    def first_class(seq):
        for op, av in seq:
            if op == sc.LITERAL:
                return _rex.literal_ranges(av, f)
            if op == sc.IN:
                try:
                    return _rex.class_ranges(av, f)
                except Exception:
                    return None
            if op == sc.SUBPATTERN:
                return first_class(list(av[3]))
            if op in (sc.MAX_REPEAT, sc.MIN_REPEAT) and av[0] >= 1:
                return first_class(list(av[2]))
            return None
        return None

    def collect(seq):
        for op, av in seq:
            if op == sc.SUBPATTERN:
                if av[0] in names:
                    fc = first_class(list(av[3]))
                    nm = names[av[0]]
                    if nm in first and first[nm] != fc:
                        first[nm] = None  # copies of the name disagree
                    else:
                        first[nm] = fc
                collect(list(av[3]))
            elif op == sc.BRANCH:
                for b in av[1]:
                    collect(list(b))
            elif op in (sc.MAX_REPEAT, sc.MIN_REPEAT):
                collect(list(av[2]))

    collect(list(parsed))

    # groups that are exactly  X{n}  for a single-character X: every position has class X
    uniform = {}

    def uni(seq):
        for op, av in seq:
            if op == sc.SUBPATTERN:
                if av[0] in names:
                    sub = list(av[3])
                    if len(sub) == 1 and sub[0][0] in (sc.MAX_REPEAT, sc.MIN_REPEAT) and sub[0][1][0] == sub[0][1][1] and len(list(sub[0][1][2])) == 1:
                        fc = first_class(list(sub[0][1][2]))
                        if fc:
                            uniform[names[av[0]]] = (fc, sub[0][1][0]) if names[av[0]] not in uniform or uniform[names[av[0]]] == (fc, sub[0][1][0]) else None
                uni(list(av[3]))
            elif op == sc.BRANCH:
                for b in av[1]:
                    uni(list(b))
            elif op in (sc.MAX_REPEAT, sc.MIN_REPEAT):
                uni(list(av[2]))

    uni(list(parsed))

    # layout of the top-level sequence: named groups and single characters at fixed offsets from each other
    def flat(seq):
        out_ = []
        for op, av in seq:
            if op == sc.AT:
                continue
            if op == sc.SUBPATTERN and av[0] is None and not av[1] and not av[2]:
                out_ += flat(list(av[3]))
            elif op == sc.SUBPATTERN and av[0] in names:
                out_.append(("group", names[av[0]]))
            elif op in (sc.LITERAL, sc.IN):
                fc = first_class([(op, av)])
                out_.append(("char", fc) if fc else ("var",))
            elif op == sc.ANY:
                out_.append(("char", None))
            else:
                out_.append(("var",))
        return out_

    layout = flat(list(parsed))
    if sum(1 for x in layout if x[0] == "group") == 0:
        layout = []

    # trail: (lo, hi|None) = width of what the pattern still has to match between the end of a participating
    # group (its last capture) and the end of the match.  Sound for every path through the pattern: the
    # remainder of each enclosing sequence follows; a loop body may be followed by further iterations (hi
    # unbounded, lo unchanged).  Look-arounds are zero-width.
    trail = {}

    def w_of(items):
        try:
            lo_, hi_ = sp.SubPattern(parsed.state, list(items)).getwidth()
        except Exception:
            return 0, None
        return lo_, (None if hi_ >= sc.MAXREPEAT or hi_ >= 2**31 else hi_)

    def addw(a, b):
        return a[0] + b[0], (None if a[1] is None or b[1] is None else a[1] + b[1])

    def trail_walk(seq, after):
        items = list(seq)
        for i, (op, av) in enumerate(items):
            aft = addw(w_of(items[i + 1 :]), after)
            if op == sc.SUBPATTERN:
                if av[0] in names:
                    nm = names[av[0]]
                    old_ = trail.get(nm)
                    trail[nm] = aft if old_ is None else (min(old_[0], aft[0]), None if (old_[1] is None or aft[1] is None) else max(old_[1], aft[1]))
                trail_walk(list(av[3]), aft)
            elif op == sc.BRANCH:
                for b in av[1]:
                    trail_walk(list(b), aft)
            elif op in (sc.MAX_REPEAT, sc.MIN_REPEAT):
                trail_walk(list(av[2]), aft if av[1] <= 1 else (aft[0], None))

    trail_walk(list(parsed), (0, 0))
    out = {nm: {"at_start": at_start.get(nm, False), "width": width.get(nm, (0, None)), "always": nm in always, "before": sorted(b for a, b in before if a == nm), "first": first.get(nm), "uniform": uniform.get(nm), "trail": trail.get(nm, (0, None))} for nm in set(names.values())}
    out["__layout__"] = layout
    _FACTS[key] = out
    return out


_NULLABLE = {}


def always_matches(pattern, flags=0):
    """True if the pattern matches the empty string at the start of any subject through a path that has
    no assertion (so a search can never fail)."""
    key = (pattern, int(flags))
    if key in _NULLABLE:
        return _NULLABLE[key]
    from vf.symre import rename_duplicate_groups

    try:
        parsed = sp.parse(rename_duplicate_groups(pattern)[0], int(flags) & (re.I | re.X | re.S | re.M))
    except Exception:
        _NULLABLE[key] = False
        return False

    def nullable(seq, first=True):
        for i, (op, av) in enumerate(seq):
            if op == sc.AT and av == sc.AT_BEGINNING and first and i == 0:
                continue
            if op == sc.SUBPATTERN:
                if not nullable(list(av[3]), first and i == 0):
                    return False
            elif op == sc.BRANCH:
                if not any(nullable(list(b), False) for b in av[1]):
                    return False
            elif op in (sc.MAX_REPEAT, sc.MIN_REPEAT):
                if av[0] > 0 and not nullable(list(av[2]), False):
                    return False
            else:
                return False
        return True

    r = nullable(list(parsed))
    _NULLABLE[key] = r
    return r


_DOTSTAR = {}


def starts_with_dotstar(pattern, flags=0):
    """the pattern begins with `.*` (possibly inside groups): on a subject without line breaks a search then
    matches at the subject's start (leftmost match; `.*` absorbs any prefix)."""
    key = (pattern, int(flags))
    if key not in _DOTSTAR:
        from vf.symre import rename_duplicate_groups

        try:
            seq = list(sp.parse(rename_duplicate_groups(pattern)[0], int(flags) & (re.I | re.X | re.S | re.M)))
        except Exception:
            seq = []
        r = False
        while seq:
            op, av = seq[0]
            if op == sc.SUBPATTERN:
                seq = list(av[3])
                continue
            if op == sc.AT:
                seq = seq[1:]
                continue
            r = op == sc.MAX_REPEAT and av[0] == 0 and av[1] >= sc.MAXREPEAT and len(list(av[2])) == 1 and list(av[2])[0][0] == sc.ANY
            break
        _DOTSTAR[key] = r
    return _DOTSTAR[key]


def apply_facts(eng, m, pattern, flags=0):
    """sharpen a SymMatch with the AST-derived facts (lazily: when a group is first inspected)."""
    facts = pattern_facts(pattern, flags)
    orig = m._grp

    def grp(k):
        fresh = k in m.g and m.g[k] == "lazy"
        if fresh and k in facts and facts[k]["always"]:
            # the group is on every path through the pattern: it participates
            gs, ge = eng.fresh_int(f"gs_{k}"), eng.fresh_int(f"ge_{k}")
            eng.add(m.s <= gs, gs <= ge, ge <= m.e)
            m.g[k] = (gs, ge)
        v = orig(k)
        if fresh and v is not None and k in facts:
            gs, ge = v
            if facts[k]["at_start"]:
                eng.add(gs == m.s)
            lo, hi = facts[k]["width"]
            eng.add(ge - gs >= lo)
            if hi is not None:
                eng.add(ge - gs <= hi)
            tlo, thi = facts[k].get("trail", (0, None))
            if tlo > 0:
                eng.add(m.e - ge >= tlo)
            if thi is not None:
                eng.add(m.e - ge <= thi)
            if facts[k].get("uniform"):
                rs_, n_ = facts[k]["uniform"]
                for d_ in range(n_):
                    eng.facts.add_solid(gs + d_, rs_)
            elif facts[k].get("first") and lo >= 1:
                # the group's first character is known up to its class: it cannot be stripped away by a strip()
                # over characters outside that class
                eng.facts.add_solid(gs, facts[k]["first"])
            # ordering against groups already decided
            for other, ov in m.g.items():
                if other == k or ov in ("lazy", None) or other not in facts:
                    continue
                if other in facts[k]["before"]:
                    eng.add(ge <= ov[0])
                if k in facts[other]["before"]:
                    eng.add(ov[1] <= gs)
        return v

    m._grp = grp
    # fixed layout: characters and groups of the top-level sequence at known offsets from each other
    layout = facts.get("__layout__") or []
    if layout:
        dup = [x[1] for x in layout if x[0] == "group"]
        if len(dup) == len(set(dup)):
            for direction in (1, -1):
                ref, off, known = (m.s, 0, True) if direction == 1 else (m.e, 0, True)
                for item in (layout if direction == 1 else reversed(layout)):
                    if item[0] == "var":
                        known = False
                    elif item[0] == "char":
                        if known:
                            pos = ref + off if direction == 1 else ref - off - 1
                            if item[1]:
                                eng.facts.add_solid(z3.simplify(pos), item[1])
                            off += 1
                    else:
                        v = grp(item[1])
                        if v is None:
                            known = False
                            continue
                        gs, ge = v
                        if known:
                            eng.add((gs == ref + off) if direction == 1 else (ge == ref - off))
                        ref, off, known = (ge, 0, True) if direction == 1 else (gs, 0, True)
    return m
