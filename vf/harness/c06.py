"""C06 / C07 / C08 (+ the resolution half of C05) — laws of resolve_citations.

Symbolically executes the real source of resolve_citations, every _resolve_* /
_filter_by_* helper, _has_invalid_pin_cite, Resource.__hash__/__eq__ and the
citation classes' __hash__/__eq__/corrected_reporter on a list of L real citation
objects of symbolic kind whose attributes (volume, reporter, page, party names,
antecedent guesses, pin cites) are symbolic.  An independent reference model,
written as z3 formulas over the same attributes, says which resource (if any) each
citation may be attached to.
"""
import z3

from vf import absval, common, symex
from vf.absval import Atom, CommaNumStr, NumStr, PinStr, Sub, WordStr
from vf.symex import SInt, lift_int, mval

KINDS = ["full_case", "full_case_placeholder", "full_journal", "full_law", "short", "supra", "ref", "id", "unknown"]
MAXP = 150


class EdStub:
    """an edition (or reporter) reduced to what the resolver reads: its short name."""

    def __init__(self, short_name, reporter=None):
        self.short_name = short_name
        self.reporter = reporter


class Spec:
    """symbolic attributes of one citation, for the reference model."""

    def __init__(self, kind):
        self.kind = kind
        self.vol = self.rep = self.page = None  # z3 ints (atom ids / page number)
        self.placeholder = False
        self.pl = self.df = None
        self.ag = None
        self.rname = None
        self.pin = None  # None | ("num", q) | ("nonnum",)
        self.page_numeric = True
        self.ed = self.edrep = None
        self.idx = None
        self.page_comma = False

    @property
    def crep(self):
        """normalised reporter: the guessed edition's name, else the reporter as written.
        (edition names and written reporters are different atom spaces unless equal ids are chosen)"""
        return self.ed if self.ed is not None else self.rep


class H(common.Harness):
    def __init__(self, params):
        super().__init__(params)
        import eyecite.models as M
        import eyecite.resolve as R
        import eyecite.utils as U

        self.M, self.R = M, R
        self.L = params["L"]
        self.kinds = params.get("kinds", KINDS)
        self.prefixes = params.get("prefixes", True)
        absval.install(self.interp)
        # names without punctuation: strip_punct is the identity on them (lemma: C05/C07 notes)
        self.interp.stubs[R.strip_punct] = lambda s: s

    def fresh(self, nm):
        return self.eng.fresh_int(nm)

    def mk(self, i):
        M, eng = self.M, self.eng
        kind = self.kinds[eng.choose([z3.Int(f"kind{i}") == j for j in range(len(self.kinds))])]
        sp = Spec(kind)
        tok = M.CitationToken("1 X 1", 0, 5, groups={"volume": "1", "reporter": "X", "page": "1"})
        if kind in ("full_case", "full_case_placeholder", "short", "full_journal"):
            cls = {"full_case": M.FullCaseCitation, "full_case_placeholder": M.FullCaseCitation, "short": M.ShortCaseCitation, "full_journal": M.FullJournalCitation}[kind]
            c = cls(tok, i)
            sp.vol, sp.rep, sp.page = self.fresh("vol"), self.fresh("rep"), self.fresh("page")
            eng.add(sp.page >= 0)
            page = NumStr(sp.page)
            if kind == "full_case_placeholder":
                page = None
                sp.placeholder = True
            elif kind == "full_journal":
                j = eng.choose([z3.Int(f"jpage{i}") == x for x in range(4)])
                if j == 1:
                    page, sp.placeholder = None, True
                elif j == 2:
                    page, sp.page_numeric = WordStr(sp.page), False
                elif j == 3:
                    page, sp.page_numeric, sp.page_comma = CommaNumStr(sp.page), False, True
            elif kind == "full_case" and self.params.get("comma_pages", True):
                if eng.choose([z3.Bool(f"comma{i}"), z3.Not(z3.Bool(f"comma{i}"))]) == 0:
                    page, sp.page_numeric, sp.page_comma = CommaNumStr(sp.page), False, True
            c.groups = {"volume": Atom(sp.vol), "reporter": Atom(sp.rep), "page": page}
            c.edition_guess = None
            c.exact_editions = c.variation_editions = c.all_editions = ()
            if kind in ("full_case", "full_case_placeholder", "short") and self.params.get("edition_guess", True):
                # the reporter is normalised through the guessed edition when there is one
                if eng.choose([z3.Bool(f"guess{i}"), z3.Not(z3.Bool(f"guess{i}"))]) == 0:
                    sp.ed, sp.edrep = self.fresh("ed"), self.fresh("edrep")
                    c.edition_guess = EdStub(Atom(sp.ed), EdStub(Atom(sp.edrep)))
            if kind in ("full_case", "full_case_placeholder"):
                sp.pl, sp.df = self.fresh("pl"), self.fresh("df")
                c.metadata.plaintiff, c.metadata.defendant = Atom(sp.pl), Atom(sp.df)
                if self.params.get("optional_parties") and eng.choose([z3.Bool(f"nodef{i}"), z3.Not(z3.Bool(f"nodef{i}"))]) == 0:
                    c.metadata.defendant, sp.df = None, None
            if kind == "short":
                if eng.choose([z3.Bool(f"ag{i}"), z3.Not(z3.Bool(f"ag{i}"))]) == 0:
                    sp.ag = self.fresh("ag")
                    c.metadata.antecedent_guess = Atom(sp.ag)
        elif kind == "full_law":
            c = M.FullLawCitation(tok, i)
            sp.rep, sp.vol = self.fresh("rep"), self.fresh("sec")
            c.groups = {"reporter": Atom(sp.rep), "section": Atom(sp.vol)}
            c.edition_guess = None
            c.exact_editions = c.variation_editions = c.all_editions = ()
        elif kind == "supra":
            c = M.SupraCitation(M.SupraToken("supra", 0, 5), i)
            if eng.choose([z3.Bool(f"ag{i}"), z3.Not(z3.Bool(f"ag{i}"))]) == 0:
                sp.ag = self.fresh("ag")
                c.metadata.antecedent_guess = Atom(sp.ag)
        elif kind == "ref":
            c = M.ReferenceCitation(M.CaseReferenceToken("Foo", 0, 3), i)
            sp.rname = self.fresh("rname")
            field = ["plaintiff", "defendant", "resolved_case_name_short"][eng.choose([z3.Int(f"rfield{i}") == x for x in range(3)])] if self.params.get("ref_fields") else "plaintiff"
            setattr(c.metadata, field, Atom(sp.rname))
        elif kind == "id":
            c = M.IdCitation(M.IdToken("id.", 0, 3), i)
            j = eng.choose([z3.Int(f"pin{i}") == x for x in range(3)])
            if j == 1:
                q = self.fresh("q")
                eng.add(q >= 0)
                sp.pin = ("num", q)
                c.metadata.pin_cite = PinStr(True, q)
            elif j == 2:
                sp.pin = ("nonnum",)
                c.metadata.pin_cite = PinStr(False, None)
        else:
            c = M.UnknownCitation(M.SectionToken("§", 0, 1), i)
        # the token index is arbitrary (reference citations always carry 0): resolution must not depend on it
        sp.idx = self.fresh("index")
        eng.add(sp.idx >= 0)
        c.index = SInt(sp.idx)
        return c, sp

    def run(self):
        cs, sps = [], []
        for i in range(self.L):
            c, sp = self.mk(i)
            cs.append(c)
            sps.append(sp)
        self.cs, self.sps = cs, sps
        res = self.interp.call(self.R.resolve_citations, (cs,), {})
        # history (C06 only): after resolving, the first numeric-page case citation is corrected through its
        # public `groups` and the list is resolved again; the grouping must follow the new value
        self.res2 = None
        if self.params.get("history"):
            for k, sp in enumerate(sps):
                if sp.kind == "full_case" and not sp.placeholder and not sp.page_comma:
                    newp = self.fresh("newpage")
                    self.eng.add(newp >= 0)
                    cs[k].groups["page"] = NumStr(newp)
                    self.hist = (k, sp.page, newp)
                    sp.page = newp
                    self.res2 = self.interp.call(self.R.resolve_citations, (cs,), {})
                    sp.page = self.hist[1]
                    break
        pre = []
        if self.prefixes:
            for k in range(self.L):
                pre.append(self.interp.call(self.R.resolve_citations, (cs[:k],), {}))
        return res, pre

    # ---- reference model
    def is_full(self, sp):
        return sp.kind.startswith("full")

    def same_doc(self, a, b):
        """spec: two full citations denote the same resource."""
        if a is b:
            return z3.BoolVal(True)
        if a.kind in ("full_case", "full_case_placeholder") and b.kind in ("full_case", "full_case_placeholder"):
            if a.placeholder or b.placeholder or a.page_comma != b.page_comma:
                return z3.BoolVal(False)
            return z3.And(a.vol == b.vol, a.crep == b.crep, a.page == b.page)
        if a.kind == "full_journal" and b.kind == "full_journal":
            # a placeholder page ("1 Minn. L. Rev. ___") never identifies a document (statement of C06 / C16)
            if a.placeholder or b.placeholder or a.page_numeric != b.page_numeric or a.page_comma != b.page_comma:
                return z3.BoolVal(False)
            return z3.And(a.vol == b.vol, a.rep == b.rep, a.page == b.page)
        if a.kind == "full_law" and b.kind == "full_law":
            return z3.And(a.vol == b.vol, a.rep == b.rep)
        return z3.BoolVal(False)

    def name_match(self, ag, sp):
        """antecedent `ag` is contained in the defendant, or else the plaintiff, of full case sp."""
        if sp.kind not in ("full_case", "full_case_placeholder"):
            return z3.BoolVal(False)
        alts = []
        for nm in (sp.df, sp.pl):
            if nm is not None:
                alts.append(z3.Or(nm == ag, Sub(ag, nm)))
        return z3.Or(*alts) if alts else z3.BoolVal(False)

    def admissible(self, i):
        """for non-full citation i: list over earlier full j of z3 condition 'must be attached to j's resource',
        plus the condition 'must stay unresolved'.  last_res: callable giving the resource index of position i-1."""
        sps = self.sps
        sp = sps[i]
        fulls = [j for j in range(i) if self.is_full(sps[j])]
        F = z3.BoolVal(False)

        def unique_among(conds):
            """conds: {j: cond}.  returns {j: 'j matches and all matching fulls are the same document'}, and 'none/ambiguous'."""
            att = {}
            for j, cj in conds.items():
                others = [z3.Implies(ck, self.same_doc(sps[j], sps[k])) for k, ck in conds.items() if k != j]
                att[j] = z3.And(cj, *others) if others else cj
            return att

        if sp.kind == "short":
            cand = {j: z3.And(sp.crep == sps[j].crep, sp.vol == sps[j].vol) for j in fulls if sps[j].kind in ("full_case", "full_case_placeholder")}
            uni = unique_among(cand)
            any_unique = z3.Or(*uni.values()) if uni else F
            att = {}
            if sp.ag is not None:
                named = {j: z3.And(cand[j], self.name_match(sp.ag, sps[j])) for j in cand}
                uni2 = unique_among(named)
                for j in cand:
                    att[j] = z3.Or(uni[j], z3.And(z3.Not(any_unique), uni2[j]))
            else:
                att = dict(uni)
            return att
        if sp.kind == "supra":
            if sp.ag is None:
                return {}
            named = {j: self.name_match(sp.ag, sps[j]) for j in fulls}
            return unique_among(named)
        if sp.kind == "ref":
            named = {}
            for j in fulls:
                alts = [nm == sp.rname for nm in (sps[j].pl, sps[j].df) if nm is not None]
                named[j] = z3.Or(*alts) if alts else F
            return unique_among(named)
        return {}

    def witness(self, m):
        out = []
        for sp in self.sps:
            d = {"kind": sp.kind}
            for k in ("vol", "rep", "page", "pl", "df", "ag", "rname", "ed", "edrep", "idx"):
                v = getattr(sp, k)
                if v is not None:
                    d[k] = mval(m, v)
            if sp.pin:
                d["pin"] = ("num", mval(m, sp.pin[1])) if sp.pin[0] == "num" else ("nonnum",)
            if sp.kind == "full_journal":
                d["jpage"] = "placeholder" if sp.placeholder else ("numeric" if sp.page_numeric else ("comma" if sp.page_comma else "roman"))
            elif sp.page_comma:
                d["jpage"] = "comma"
            out.append(d)
        # substring facts
        subs = []
        names = [(i, k, getattr(sp, k)) for i, sp in enumerate(self.sps) for k in ("pl", "df") if getattr(sp, k) is not None]
        for i, sp in enumerate(self.sps):
            if sp.ag is not None:
                for j, k, nm in names:
                    if z3.is_true(m.eval(Sub(sp.ag, nm), model_completion=True)):
                        subs.append((i, j, k))
        return {"citations": out, "substring": subs}

    def describe(self, kind, out):
        m = self.eng.path_model()
        return {"path_model": self.witness(m) if m is not None else None, "outcome": kind if kind == "exc" else "mapping"}

    def judge(self, kind, out):
        if kind == "exc":
            return [self.check("C06:returns_mapping:" + type(out).__name__, False, self.witness)]
        res, pre = out
        M = self.M
        cs, sps = self.cs, self.sps
        fs = []
        items = list(res.items())
        pos = {id(c): i for i, c in enumerate(cs)}
        # ---------------- C06: faithful ordered partition
        ok = True
        seen = set()
        where = {}
        for gi, (key, vals) in enumerate(items):
            if not vals or not isinstance(vals[0], M.FullCitation):
                ok = False
            idx = [pos.get(id(v)) for v in vals]
            if None in idx or idx != sorted(idx) or len(set(idx)) != len(idx):
                ok = False
            for v in vals:
                if id(v) in seen or isinstance(v, M.UnknownCitation):
                    ok = False
                seen.add(id(v))
                where[pos.get(id(v))] = gi
        for i, c in enumerate(cs):
            if isinstance(c, M.FullCitation) and i not in where:
                ok = False
        fs.append(self.check("C06:disjoint_ordered_subsequences_led_by_full", z3.BoolVal(ok), self.witness))
        fulls = [i for i, sp in enumerate(sps) if self.is_full(sp)]
        conds = []
        for a in fulls:
            for b in fulls:
                if a < b and a in where and b in where:
                    same = where[a] == where[b]
                    spec = self.same_doc(sps[a], sps[b])
                    conds.append(spec if same else z3.Not(spec))
        fs.append(self.check("C06:fulls_share_resource_iff_equal", z3.And(*conds) if conds else z3.BoolVal(True), self.witness))
        if getattr(self, "res2", None) is not None:
            k, oldp, newp = self.hist
            sps[k].page = newp
            where2 = {}
            for gi, (key, vals) in enumerate(list(self.res2.items())):
                for v in vals:
                    where2[pos.get(id(v))] = gi
            conds2 = []
            for a in fulls:
                for b in fulls:
                    if a < b and a in where2 and b in where2:
                        spec = self.same_doc(sps[a], sps[b])
                        conds2.append(spec if where2[a] == where2[b] else z3.Not(spec))
            sps[k].page = oldp
            fs.append(self.check("C06:grouping_follows_corrected_page", z3.And(*conds2) if conds2 else z3.BoolVal(True), lambda m: {**self.witness(m), "corrected": {"index": k, "new_page": mval(m, newp)}}))
        # ---------------- C07: never guesses
        def first_full_of(gi):
            return pos[id(items[gi][1][0])]

        conds7 = []
        for i, sp in enumerate(sps):
            if self.is_full(sp) or sp.kind == "unknown":
                continue
            got = where.get(i)
            if sp.kind == "id":
                prev = where.get(i - 1) if i > 0 else None
                if prev is None:
                    conds7.append(z3.BoolVal(got is None))
                    continue
                f = sps[first_full_of(prev)]
                invalid = z3.BoolVal(False)
                if f.kind in ("full_case", "full_case_placeholder") and f.placeholder:
                    invalid = z3.BoolVal(True)
                elif sp.pin is not None and f.kind in ("full_case", "full_journal") and not f.placeholder and f.page_numeric:
                    if sp.pin[0] == "nonnum":
                        invalid = z3.BoolVal(True)
                    else:
                        q = sp.pin[1]
                        invalid = z3.Or(q < f.page, q > f.page + MAXP)
                if got is None:
                    conds7.append(invalid)
                else:
                    conds7.append(z3.And(z3.BoolVal(got == prev), z3.Not(invalid)))
                continue
            att = self.admissible(i)
            if got is None:
                conds7.append(z3.Not(z3.Or(*att.values())) if att else z3.BoolVal(True))
            else:
                members = [j for j in att if where.get(j) == got]
                conds7.append(z3.Or(*[att[j] for j in members]) if members else z3.BoolVal(False))
        fs.append(self.check("C07:attached_only_to_unique_admissible", z3.And(*conds7) if conds7 else z3.BoolVal(True), self.witness))
        # ---------------- C08: online
        ok8 = True
        for i in where:
            if first_full_of(where[i]) > i:
                ok8 = False
        for k, pr in enumerate(pre):
            want = []
            for key, vals in items:
                sub = [pos[id(v)] for v in vals if pos[id(v)] < k]
                if sub:
                    want.append(sub)
            got_ = [[pos[id(v)] for v in vals] for key, vals in list(pr.items())]
            if want != got_:
                ok8 = False
        fs.append(self.check("C08:prefix_resolution_is_restriction", z3.BoolVal(ok8), self.witness))
        return fs


def make(params):
    return H(params)


# ---------------------------------------------------------------- replay on the real code
def build_concrete(w):
    """real citation objects realising a model (names are generated strings honouring the substring facts)."""
    import eyecite.models as M

    cits = w["citations"]
    # names: atom id -> string; substring facts realised by embedding
    def nm(prefix, v):
        return f"{prefix}{v}x"

    names = {}
    for i, d in enumerate(cits):
        for k in ("pl", "df"):
            if k in d:
                names[(i, k)] = "Party" + "abcdefghij"[d[k] % 10] * 2 + str(d[k])
    ags = {}
    for i, d in enumerate(cits):
        if "ag" in d:
            ags[i] = "Ante" + str(d["ag"]) + "q"
    # equal atom ids => equal strings: an antecedent equal to a party id reuses its string
    for i, d in enumerate(cits):
        if "ag" in d:
            for (j, k), s in list(names.items()):
                if cits[j][k] == d["ag"]:
                    ags[i] = s
    # substring facts: extend the party name with the antecedent text
    for i, j, k in w["substring"]:
        if ags[i] not in names[(j, k)]:
            names[(j, k)] = names[(j, k)] + " " + ags[i]
    # keep equal ids equal after extension
    byid = {}
    for (j, k), s in names.items():
        byid.setdefault(cits[j][k], []).append(s)
    for (j, k) in names:
        names[(j, k)] = max(byid[cits[j][k]], key=len)
    out = []
    for i, d in enumerate(cits):
        kind = d["kind"]
        groups = {"volume": str(d.get("vol", 1)), "reporter": "R" + str(d.get("rep", 0)), "page": str(d.get("page", 1))}
        if kind in ("full_case", "full_case_placeholder", "short", "full_journal"):
            if kind == "full_case_placeholder" or d.get("jpage") == "placeholder":
                groups["page"] = "___"
            elif d.get("jpage") == "comma":
                groups["page"] = str(d.get("page", 0)) + ",000"
            elif d.get("jpage") == "roman":
                groups["page"] = "x" * (d.get("page", 0) % 3 + 1) + "i" * (d.get("page", 0) // 3 % 3)
            tok = M.CitationToken("x", 0, 1, groups=groups)
            cls = {"full_case": M.FullCaseCitation, "full_case_placeholder": M.FullCaseCitation, "short": M.ShortCaseCitation, "full_journal": M.FullJournalCitation}[kind]
            c = cls(tok, i)
            if "ed" in d:
                import eyecite.models as M2

                c.edition_guess = M2.Edition(M2.Reporter("R" + str(d["edrep"]), "name", "state", "reporters"), "R" + str(d["ed"]), None, None)
            if (i, "pl") in names:
                c.metadata.plaintiff = names[(i, "pl")]
            if (i, "df") in names:
                c.metadata.defendant = names[(i, "df")]
            if kind == "short" and i in ags:
                c.metadata.antecedent_guess = ags[i]
        elif kind == "full_law":
            tok = M.CitationToken("x", 0, 1, groups={"reporter": "L" + str(d["rep"]), "section": str(d["vol"])})
            c = M.FullLawCitation(tok, i)
        elif kind == "supra":
            c = M.SupraCitation(M.SupraToken("supra", 0, 5), i)
            if i in ags:
                c.metadata.antecedent_guess = ags[i]
        elif kind == "ref":
            c = M.ReferenceCitation(M.CaseReferenceToken("Foo", 0, 3), i)
            s = None
            for (j, k), v in names.items():
                if cits[j][k] == d["rname"]:
                    s = v
            c.metadata.plaintiff = s or ("Ref" + str(d["rname"]))
        elif kind == "id":
            c = M.IdCitation(M.IdToken("id.", 0, 3), i)
            if "pin" in d:
                c.metadata.pin_cite = ("at " + str(d["pin"][1])) if d["pin"][0] == "num" else "at ¶ 3"
        else:
            c = M.UnknownCitation(M.SectionToken("§", 0, 1), i)
        c.index = d.get("idx", i)
        out.append(c)
    return out


def concrete_oracle(cs, w=None):
    """C06/C07/C08 evaluated concretely with a plain-Python reference resolver. returns failed clauses."""
    import eyecite.models as M
    from eyecite import resolve_citations

    bad = []
    try:
        res = resolve_citations(cs)
    except Exception as ex:
        return ["C06:returns_mapping:" + type(ex).__name__], None
    pos = {id(c): i for i, c in enumerate(cs)}
    groups = [[pos.get(id(v)) for v in vals] for vals in res.values()]
    flat = [i for g in groups for i in g]
    if None in flat or len(flat) != len(set(flat)) or any(g != sorted(g) for g in groups) or any(not g or not isinstance(cs[g[0]], M.FullCitation) for g in groups) or any(isinstance(cs[i], M.UnknownCitation) for i in flat):
        bad.append("C06:disjoint_ordered_subsequences_led_by_full")
    where = {i: gi for gi, g in enumerate(groups) for i in g}
    for i, c in enumerate(cs):
        if isinstance(c, M.FullCitation) and i not in where:
            bad.append("C06:disjoint_ordered_subsequences_led_by_full")

    def same_doc(a, b):
        if a is b:
            return True
        if type(a) is not type(b):
            return False
        if isinstance(a, M.FullCaseCitation):
            if a.groups["page"] is None or b.groups["page"] is None:
                return False
            # the normalised reporter as the property words it (edition short name, else the reporter as written),
            # not through the method under test
            nr = lambda c: c.edition_guess.short_name if c.edition_guess else c.groups["reporter"]
            return (a.groups.get("volume"), a.groups["page"], nr(a)) == (b.groups.get("volume"), b.groups["page"], nr(b))
        if isinstance(a, M.FullJournalCitation) and (a.groups.get("page") is None or b.groups.get("page") is None):
            return False  # placeholder page: equal only to itself
        return dict(a.groups) == dict(b.groups) and sorted(map(repr, a.all_editions)) == sorted(map(repr, b.all_editions))

    fulls = [i for i, c in enumerate(cs) if isinstance(c, M.FullCitation)]
    for a in fulls:
        for b in fulls:
            if a < b and a in where and b in where and (where[a] == where[b]) != same_doc(cs[a], cs[b]):
                bad.append("C06:fulls_share_resource_iff_equal")

    # reference resolver
    def classes(js):
        reps = []
        for j in js:
            if not any(same_doc(cs[j], cs[r]) for r in reps):
                reps.append(j)
        return reps

    def named(ag, j):
        c = cs[j]
        if not isinstance(c, M.FullCaseCitation):
            return False
        return bool((c.metadata.defendant and ag in c.metadata.defendant) or (c.metadata.plaintiff and ag in c.metadata.plaintiff))

    expect = {}
    prev_group_first = None
    first_of = {}
    for i, c in enumerate(cs):
        earlier = [j for j in fulls if j < i]
        tgt = None
        if isinstance(c, M.FullCitation):
            same = [j for j in earlier if same_doc(cs[j], c)]
            tgt = same[0] if same else i
        elif isinstance(c, M.ShortCaseCitation):
            cand = [j for j in earlier if isinstance(cs[j], M.FullCaseCitation) and (cs[j].edition_guess.short_name if cs[j].edition_guess else cs[j].groups["reporter"]) == (c.edition_guess.short_name if c.edition_guess else c.groups["reporter"]) and cs[j].groups.get("volume") == c.groups.get("volume")]
            cl = classes(cand)
            if len(cl) == 1:
                tgt = cl[0]
            elif c.metadata.antecedent_guess:
                cl = classes([j for j in cand if named(c.metadata.antecedent_guess, j)])
                tgt = cl[0] if len(cl) == 1 else None
        elif isinstance(c, M.SupraCitation):
            if c.metadata.antecedent_guess:
                cl = classes([j for j in earlier if named(c.metadata.antecedent_guess, j)])
                tgt = cl[0] if len(cl) == 1 else None
        elif isinstance(c, M.ReferenceCitation):
            vals = {getattr(c.metadata, k) for k in M.ReferenceCitation.name_fields if getattr(c.metadata, k)}
            cl = classes([j for j in earlier if vals & {v for v in (getattr(cs[j].metadata, "plaintiff", None), getattr(cs[j].metadata, "defendant", None), getattr(cs[j].metadata, "resolved_case_name", None), getattr(cs[j].metadata, "resolved_case_name_short", None)) if v}])
            tgt = cl[0] if len(cl) == 1 else None
        elif isinstance(c, M.IdCitation):
            if prev_group_first is not None:
                f = cs[prev_group_first]
                invalid = False
                if type(f) is M.FullCaseCitation and f.groups.get("page") is None:
                    invalid = True
                elif c.metadata.pin_cite and (f.groups.get("page") or "").isdigit():
                    import re as _re

                    m = _re.match(r"(?:at )?(\d+)", c.metadata.pin_cite)
                    if not m:
                        invalid = True
                    else:
                        q, p = int(m[1]), int(f.groups["page"])
                        invalid = q < p or q > p + MAXP
                tgt = None if invalid else prev_group_first
        if tgt is not None:
            # canonical representative = first member of the class
            tgt = min([j for j in fulls if j <= tgt and same_doc(cs[j], cs[tgt])] + [tgt])
        expect[i] = tgt
        prev_group_first = tgt
    for i, c in enumerate(cs):
        got = groups[where[i]][0] if i in where else None
        if not isinstance(c, M.FullCitation) and got != expect[i]:
            bad.append("C07:attached_only_to_unique_admissible")
        if got is not None and got > i:
            bad.append("C08:prefix_resolution_is_restriction")
    for k in range(len(cs)):
        try:
            pr = resolve_citations(cs[:k])
        except Exception:
            bad.append("C08:prefix_resolution_is_restriction")
            continue
        got_ = [[pos[id(v)] for v in vals] for vals in pr.values()]
        want = [[i for i in g if i < k] for g in groups]
        want = [g for g in want if g]
        if got_ != want:
            bad.append("C08:prefix_resolution_is_restriction")
    return sorted(set(bad)), groups


CLAUSES = {
    "C06": ["C06:"],
    "C07": ["C07:"],
    "C08": ["C08:"],
}


def regression(rep, pid):
    """fixed findings + documents through the public API."""
    from eyecite import get_citations, resolve_citations

    texts = [
        "1 Minn. L. Rev. ___. Id. at 5.",
        "Foo v. Bar, 1 U.S. 1 (1999). Id. at 3. Smith v. Jones, 2 U.S. 5. Id. at 200. Bar, supra, at 4. 1 U.S., at 7.",
        "Foo v. Bar, 1 U.S. ___ (2020). Id. at 5. Id.",
        "See 1 Minn. L. Rev. ___ (2020). Compare 1 Minn. L. Rev. ___ (2021).",
    ]
    for t in texts:
        rep.replays += 1
        try:
            cs = get_citations(t)
            bad, groups = concrete_oracle(cs)
        except Exception as ex:
            bad = ["C06:returns_mapping:" + type(ex).__name__]
        bad = [b for b in bad if any(b.startswith(p) for p in CLAUSES[pid])]
        if bad:
            rep.violation(f"resolve_citations(get_citations({t!r})): {bad}", {"kind": "text", "text": t})


def selftest(rep):
    from eyecite import get_citations, resolve_citations
    import eyecite.resolve as R

    eng = symex.Engine()
    symex.ENGINE = eng
    it = symex.Interp(eng)
    it.native_keys_ok = True  # concrete citation objects only
    texts = [
        "Foo v. Bar, 1 U.S. 1 (1999). Id. at 3. Smith v. Jones, 2 U.S. 5. Id. at 200. Bar, supra, at 4. 1 U.S., at 7. See 2 U.S., at 9; Jones at 6.",
        "Foo v. Bar, 1 U.S. 1. Foo v. Bar, 1 U. S. 1. 3 Minn. L. Rev. 5. Id. 42 U.S.C. § 1983. Id. § 5 foo.",
    ]
    n = 0
    for t in texts:
        cs = get_citations(t)
        native = [[cs.index(v) for v in vals] for vals in resolve_citations(cs).values()]

        def run():
            return it.call(R.resolve_citations, (cs,), {})

        outs = list(eng.explore(run))
        if len(outs) != 1 or outs[0][0] != "ok":
            rep.inconc(f"interpreter self-test: resolve_citations forked or raised on {t!r}: {outs[:1]}")
            return
        got = [[cs.index(v) for v in vals] for vals in outs[0][1].values()]
        if got != native:
            rep.inconc(f"interpreter self-test: interpreted resolve_citations {got} differs from CPython {native} on {t!r}")
            return
        n += 1
    rep.sections["interpreter_selftest"] = {"documents_agreeing_with_cpython": n}


def run_property(rep, pid):
    quick = rep.tier == "quick"
    L = 3
    rep.bounds.append(f"citation lists of length L = {L} over the kinds {KINDS}; volumes/reporters/pages/party names/antecedents/pin cites symbolic (pages and pin cites unbounded integers); every prefix resolved as well" + ("" if quick else "; optional (absent) party names and reference-citation name fields included"))
    rep.outside += [
        f"lists longer than {L} (thorough: than 4 over the reduced alphabet named below); party names containing punctuation (strip_punct is taken as the identity); metadata values other than party names coinciding with a reference citation's name; edition_guess-based reporter normalisation (covered by C16)",
        "custom resolver callbacks",
    ]
    rep.stubs += [
        "hash_sha256: injective on its argument (SHA-256 and hash() assumed collision-free); id() values differ from digests",
        "strip_punct: identity (names without punctuation; C07 discharges this with the strip_punct lemma: the real function on every string of <= 2/3 characters is the identity on word characters and only ever deletes)",
        "re.match('(?:at )?(\\\\d+)', pin_cite): None for a non-numeric pin cite, else group 1 = the leading number (C07 and C05 discharge this abstraction with the pin-cite lemma: the real _has_invalid_pin_cite on <= 5/6 arbitrary characters)",
    ]
    params = {"L": L, "optional_parties": not quick, "ref_fields": not quick, "history": pid == "C06"}
    agg = common.explore_split("vf.harness.c06", params, depth=3 if quick else 4, timeout=6 * 3600)
    rep.merge_explore("resolve", agg)
    if not quick:
        # all 9 kinds at length 4 are 1.7 million paths (67 minutes on 16 cores, measured) for each of the three
        # properties sharing this harness; the thorough tier takes length 4 over the kinds each property is about
        ks = {
            "C06": ["full_case", "full_case_placeholder", "full_journal", "full_law", "id", "unknown"],
            "C07": ["full_case", "full_case_placeholder", "short", "supra", "ref", "id"],
            "C08": ["full_case", "full_journal", "short", "supra", "id"],
        }[pid]
        rep.bounds.append(f"plus every 4-citation list over {ks}")
        aggx = common.explore_split("vf.harness.c06", dict(params, L=4, kinds=ks, optional_parties=False, ref_fields=False), depth=4, timeout=4 * 3600)
        rep.merge_explore("resolve_4", aggx)
        for k, v in aggx["verdicts"].items():
            agg["verdicts"][k] = agg["verdicts"].get(k, 0) + v
        agg["findings"] = agg["findings"] + aggx["findings"]
        agg["paths"] += aggx["paths"]
        agg["errors"] = agg["errors"] + aggx["errors"]
    if quick and pid in ("C07", "C08"):
        # slices of the next length: 4 citations over {full case, one reference kind} - repeated references to
        # colliding cases need two full citations and two references
        for ks in (["full_case", "short"], ["full_case", "supra"]):
            rep.bounds.append(f"plus the slice of {L + 1}-citation lists over {ks} (plain numeric pages, no edition guess)")
            aggx = common.explore_split("vf.harness.c06", dict(params, L=L + 1, kinds=ks, prefixes=pid == "C08", edition_guess=False, comma_pages=False), depth=4, timeout=3600)
            rep.merge_explore("resolve_slice_" + ks[1], aggx)
            for k, v in aggx["verdicts"].items():
                agg["verdicts"][k] = agg["verdicts"].get(k, 0) + v
            agg["findings"] = agg["findings"] + aggx["findings"]
            agg["paths"] += aggx["paths"]
            agg["errors"] = agg["errors"] + aggx["errors"]
    pref = CLAUSES[pid]
    n_ob = sum(v for k, v in agg["verdicts"].items() if any(k.startswith(p) for p in pref))
    n_ok = sum(v for k, v in agg["verdicts"].items() if any(k.startswith(p) for p in pref) and k.endswith(":valid"))
    rep.oblige(n_ok)
    rep.oblige(n_ob - n_ok, ok=False)
    rep.distinct = agg["paths"]
    if n_ob == 0 and not agg["errors"]:
        rep.inconc("vacuous: no assertion reached")
    seen = set()
    for f in agg["findings"]:
        if not any(f["clause"].startswith(p) for p in pref):
            continue
        if f["verdict"] != "cex":
            rep.inconc(f"{f['clause']}: solver verdict {f['verdict']}")
            continue
        w = f["witness"]
        rep.replays += 1
        if f["clause"] == "C06:grouping_follows_corrected_page":
            try:
                from eyecite import resolve_citations as _rc

                cs = build_concrete(w)
                _rc(cs)
                k = w["corrected"]["index"]
                cs[k].groups["page"] = str(w["corrected"]["new_page"])
                w2 = dict(w, citations=[dict(d, page=w["corrected"]["new_page"]) if i == k else d for i, d in enumerate(w["citations"])])
                bad, groups = concrete_oracle(cs, w2)
                bad = ["C06:grouping_follows_corrected_page"] if any(b.startswith("C06:fulls_share") for b in bad) else []
            except Exception as ex:
                rep.inconc(f"history replay failed for {w}: {ex!r}")
                continue
            if bad:
                if "hist" not in seen:
                    seen.add("hist")
                    rep.violation(f"resolve_citations on {w['citations']}, then citation {k}'s page corrected to {w['corrected']['new_page']} and resolved again -> groups {groups}: the grouping does not follow the corrected value", {"kind": "history", "witness": w})
            else:
                rep.spurious += 1
                rep.inconc(f"history model did not reproduce: {w}")
            continue
        try:
            cs = build_concrete(w)
            bad, groups = concrete_oracle(cs, w)
        except Exception as ex:
            rep.inconc(f"replay construction failed for {w}: {ex!r}")
            continue
        bad = [b for b in bad if any(b.startswith(p) for p in pref)]
        if bad:
            key = (tuple(bad), tuple(d["kind"] for d in w["citations"]))
            if key in seen:
                continue
            seen.add(key)
            rep.violation(f"resolve_citations on {[d for d in w['citations']]} (substring facts {w['substring']}) -> groups {groups}: {bad}", {"kind": "model", "witness": w})
        else:
            rep.spurious += 1
            rep.inconc(f"{f['clause']}: model did not reproduce on the real code: {w}")
    if pid == "C07":
        # the lemma behind the pin-cite abstraction: the real test on pin-cite *text*
        from vf.harness import pinlemma

        pinlemma.fold(rep, pid)
        # ... and behind the "strip_punct is the identity on names without punctuation" stub
        from vf.harness import punctlemma

        punctlemma.fold(rep, pid)
    regression(rep, pid)
    selftest(rep)
    titles = {"C06": "the mapping's values are disjoint ordered sub-sequences led by a full citation and two full citations share a resource iff they are equal", "C07": "every non-full citation is attached to a resource only when the reference model's set of admissible resources is that singleton, id. only to its predecessor within the page window", "C08": "resolving every prefix gives the restriction of the whole resolution and no citation joins a resource introduced later"}
    return rep.finish(
        explanation=f"Path-exhaustive symbolic execution of the real resolver source on lists of {L} citation objects (plus the 4-citation lists named under bounds) with symbolic kinds and attributes; on every path: {titles[pid]} — as z3 validity queries against an independent reference model over the same symbolic attributes; counter-models are rebuilt as real citation objects and replayed.",
        technique="symbolic execution of the Python source (AST interpreter) + z3 validity queries per path against a reference model; bounded list length",
    )


def check(rep):
    return run_property(rep, "C06")


def replay_file(path):
    import json

    d = json.load(open(path))
    r = d["replay"]
    if r["kind"] == "pin":
        from vf.harness import pinlemma

        return pinlemma.replay(r)
    if r["kind"] == "punct":
        from vf.harness import punctlemma

        return punctlemma.replay(r)
    if r["kind"] == "model":
        cs = build_concrete(r["witness"])
        bad, groups = concrete_oracle(cs)
    else:
        from eyecite import get_citations

        bad, groups = concrete_oracle(get_citations(r["text"]))
    print(groups, bad)
    return 1 if bad else 0
