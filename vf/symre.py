"""Bounded character-level strings (CStr) and a backtracking regex matcher over them.

A CStr is a string of concrete length whose characters are concrete code points or
z3 integer terms ranging over all of Unicode.  The matcher runs a pattern (parsed by
CPython's re._parser, so also the verbose patterns eyecite feeds to the `regex`
module once duplicate group names are renamed) with Python's priority rules:
alternation order, greedy/lazy repeats, groups, ^/$, look-ahead.  Every character
test is a fork on `code point in class`, decided by z3; class tables come from the
runtime (vf.rex.table).  One path = one equivalence class of infinitely many strings.
"""
import re
import re._constants as sc
import re._parser as sp

import z3

from vf import rex, symex
from vf.symex import NotEncodable, SBool, mkbool


def _cv(c):
    return c if isinstance(c, int) else None


def char_in(c, rs):
    """truth value (forking) of  c in ranges."""
    if isinstance(c, int):
        return any(a <= c <= b for a, b in rs)
    if not rs:
        return False
    return bool(mkbool(z3.Or(*[z3.And(c >= a, c <= b) if a != b else c == a for a, b in rs])))


def char_eq(a, b):
    if isinstance(a, int) and isinstance(b, int):
        return a == b
    return mkbool((a if not isinstance(a, int) else z3.IntVal(a)) == (b if not isinstance(b, int) else z3.IntVal(b)))


class CStr:
    __slots__ = ("chars",)

    def __init__(self, chars):
        self.chars = list(chars)

    @classmethod
    def lit(cls, s):
        return cls([ord(c) for c in s])

    @classmethod
    def fresh(cls, eng, n, name="c"):
        cs = [z3.Int(f"{name}{i}") for i in range(n)]
        for c in cs:
            eng.add(c >= 0, c <= 0x10FFFF)
        return cls(cs)

    def __len__(self):
        return len(self.chars)

    def __bool__(self):
        return bool(self.chars)

    def __repr__(self):
        return "CStr(" + ",".join(chr(c) if isinstance(c, int) else str(c) for c in self.chars) + ")"

    __hash__ = None

    def __iter__(self):
        return iter(CStr([c]) for c in self.chars)

    def __getitem__(self, i):
        if isinstance(i, slice):
            return CStr(self.chars[i])
        return CStr([self.chars[i]])

    def __add__(self, o):
        if isinstance(o, str):
            return CStr(self.chars + [ord(c) for c in o])
        if isinstance(o, CStr):
            return CStr(self.chars + o.chars)
        return NotImplemented

    def __radd__(self, o):
        if isinstance(o, str):
            return CStr([ord(c) for c in o] + self.chars)
        return NotImplemented

    def __eq__(self, o):
        if isinstance(o, str):
            o = CStr.lit(o)
        if not isinstance(o, CStr):
            return False
        if len(o) != len(self):
            return False
        conds = []
        for a, b in zip(self.chars, o.chars):
            r = char_eq(a, b)
            if r is False:
                return False
            if r is not True:
                conds.append(r.e)
        return mkbool(z3.And(*conds)) if conds else True

    def __ne__(self, o):
        r = self.__eq__(o)
        return mkbool(z3.Not(r.e)) if isinstance(r, SBool) else (not r)

    def __contains__(self, item):
        if isinstance(item, str):
            item = CStr.lit(item)
        n = len(item)
        if n == 0:
            return True
        for i in range(len(self) - n + 1):
            if bool(CStr(self.chars[i : i + n]) == item):
                return True
        return False

    def startswith(self, p):
        p = CStr.lit(p) if isinstance(p, str) else p
        return len(p) <= len(self) and bool(CStr(self.chars[: len(p)]) == p)

    def endswith(self, p):
        p = CStr.lit(p) if isinstance(p, str) else p
        return len(p) <= len(self) and bool(CStr(self.chars[len(self) - len(p) :]) == p)

    def split(self, sep=None, maxsplit=-1):
        if not isinstance(sep, str) or len(sep) != 1 or maxsplit != -1:
            raise NotEncodable("CStr.split with this separator")
        out, cur = [], []
        for c in self.chars:
            if bool(char_eq(c, ord(sep))):
                out.append(CStr(cur))
                cur = []
            else:
                cur.append(c)
        out.append(CStr(cur))
        return out

    def _strip(self, chars, left, right):
        if chars is None:
            rs = rex.table(r"\s", 0)
        else:
            rs = rex.norm([(ord(c), ord(c)) for c in chars])
        a, b = 0, len(self.chars)
        if left:
            while a < b and char_in(self.chars[a], rs):
                a += 1
        if right:
            while b > a and char_in(self.chars[b - 1], rs):
                b -= 1
        return CStr(self.chars[a:b])

    def strip(self, chars=None):
        return self._strip(chars, True, True)

    def lstrip(self, chars=None):
        return self._strip(chars, True, False)

    def rstrip(self, chars=None):
        return self._strip(chars, False, True)

    def replace(self, old, new, count=-1):
        """str.replace: left-to-right, non-overlapping; every comparison forks on character equality."""
        old = CStr.lit(old) if isinstance(old, str) else old
        new = CStr.lit(new) if isinstance(new, str) else new
        if not isinstance(old, CStr) or not isinstance(new, CStr) or count != -1:
            raise NotEncodable("str.replace with these arguments on a character-level symbolic string")
        n = len(old)
        if n == 0:
            raise NotEncodable("str.replace of the empty string")
        out, i = [], 0
        while i < len(self.chars):
            if i + n <= len(self.chars) and bool(CStr(self.chars[i : i + n]) == old):
                out.extend(new.chars)
                i += n
            else:
                out.append(self.chars[i])
                i += 1
        return CStr(out)

    def removeprefix(self, p):
        p = CStr.lit(p) if isinstance(p, str) else p
        return CStr(self.chars[len(p) :]) if self.startswith(p) else self

    def removesuffix(self, p):
        p = CStr.lit(p) if isinstance(p, str) else p
        return CStr(self.chars[: len(self) - len(p)]) if len(p) and self.endswith(p) else self

    def _all_in(self, pred):
        # str.isdigit & co.: non-empty and every character satisfies the runtime's per-character predicate
        if not self.chars:
            return False
        rs = pred_table(pred)
        return all(char_in(c, rs) for c in self.chars)

    def isdigit(self):
        return self._all_in("isdigit")

    def isdecimal(self):
        return self._all_in("isdecimal")

    def isnumeric(self):
        return self._all_in("isnumeric")

    def isspace(self):
        return self._all_in("isspace")

    def isalpha(self):
        return self._all_in("isalpha")

    def isalnum(self):
        return self._all_in("isalnum")

    def __getattr__(self, name):
        if hasattr(str, name):
            raise NotEncodable(f"str.{name} on a character-level symbolic string")
        raise AttributeError(name)

    def concrete(self, model):
        return "".join(chr(c if isinstance(c, int) else symex.mval(model, c)) for c in self.chars)


_PRED = {}


def pred_table(name):
    """code-point ranges on which the runtime's one-character str predicate (isdigit, ...) holds."""
    if name not in _PRED:
        f = getattr(str, name)
        rs, start = [], None
        for cp in range(0x110000):
            ok = f(chr(cp))
            if ok and start is None:
                start = cp
            elif not ok and start is not None:
                rs.append((start, cp - 1))
                start = None
        if start is not None:
            rs.append((start, 0x10FFFF))
        _PRED[name] = rs
    return _PRED[name]


symex.STRLIKE.append(CStr)


def same(a, b, eng):
    """are two CStr values equal on every string of the current path?  (validity, no fork)"""
    if len(a) != len(b):
        return False
    conds = []
    for x, y in zip(a.chars, b.chars):
        if isinstance(x, int) and isinstance(y, int):
            if x != y:
                return False
        elif not (x is y):
            conds.append((x if not isinstance(x, int) else z3.IntVal(x)) == (y if not isinstance(y, int) else z3.IntVal(y)))
    return True if not conds else eng.implied(z3.And(*conds))


# ---------------------------------------------------------------- pattern handling
_DUP = re.compile(r"\(\?P<([A-Za-z_][A-Za-z0-9_]*)>")


def rename_duplicate_groups(pattern):
    """the `regex` module allows one group name on several alternatives; re._parser does not.
    Returns (pattern', {new_name: original_name})."""
    seen, back = {}, {}

    def r(m):
        nm = m.group(1)
        k = seen.get(nm, 0)
        seen[nm] = k + 1
        new = nm if k == 0 else f"{nm}__dup{k}"
        back[new] = nm
        return f"(?P<{new}>"

    return _DUP.sub(r, pattern), back


class Match:
    def __init__(self, subject, start, end, groups, names, back):
        self.subject, self.s, self.e, self.g = subject, start, end, groups
        self.names = names  # name -> gid (renamed names)
        self.back = back

    def _gids(self, k):
        if isinstance(k, int):
            return [k]
        ids = [gid for nm, gid in self.names.items() if self.back.get(nm, nm) == k]
        if not ids:
            raise IndexError(f"no such group {k}")
        return ids

    def span(self, k=0):
        if k == 0:
            return (self.s, self.e)
        for gid in self._gids(k):
            if gid in self.g:
                return self.g[gid]
        return (-1, -1)

    def start(self, k=0):
        return self.span(k)[0]

    def end(self, k=0):
        return self.span(k)[1]

    def group(self, k=0):
        a, b = self.span(k)
        if a == -1:
            return None
        return CStr(self.subject.chars[a:b])

    __getitem__ = group

    def groups(self):
        n = max(self.names.values(), default=0)
        return tuple(self.group(i) for i in range(1, n + 1))

    def groupdict(self):
        out = {}
        for nm in self.names:
            o = self.back.get(nm, nm)
            v = self.group(o)
            if o not in out or out[o] is None:
                out[o] = v
        return out

    def __bool__(self):
        return True


class Matcher:
    def __init__(self, pattern, flags=0, module=re):
        # `module`: the engine whose verdict on single characters defines the class tables (\\w, \\s, \\d and
        # case folding differ between `re` and `regex` on a few hundred code points)
        self.module = module
        if isinstance(pattern, str):
            pattern, self.back = rename_duplicate_groups(pattern)
        else:
            raise NotEncodable("compiled pattern object")
        self.flags = int(flags) & (re.I | re.X | re.S | re.M)
        self.p = sp.parse(pattern, self.flags)
        self.flags = self.p.state.flags
        self.names = dict(self.p.state.groupdict)
        if self.flags & re.M:
            pass

    def test(self, op, av, c):
        if op == sc.LITERAL:
            return char_in(c, rex.table(re.escape(chr(av)), re.I, module=self.module) if self.flags & re.I else [(av, av)])
        if op == sc.NOT_LITERAL:
            return not char_in(c, rex.table(re.escape(chr(av)), re.I, module=self.module) if self.flags & re.I else [(av, av)])
        if op == sc.ANY:
            return True if self.flags & re.S else not char_in(c, [(10, 10)])
        if op == sc.IN:
            return char_in(c, class_ranges_full(av, self.flags, self.module))
        raise NotEncodable(f"regex node {op}")

    def m(self, seq, i, s, pos, groups, k):
        if i == len(seq):
            return k(pos, groups)
        op, av = seq[i]
        nxt = lambda p, g: self.m(seq, i + 1, s, p, g, k)
        if op in (sc.LITERAL, sc.NOT_LITERAL, sc.ANY, sc.IN):
            if pos < len(s) and self.test(op, av, s.chars[pos]):
                return nxt(pos + 1, groups)
            return None
        if op == sc.SUBPATTERN:
            gid, add, dele, sub = av
            if add or dele:
                raise NotEncodable("inline flags")

            def after(p, g):
                g2 = dict(g)
                if gid is not None:
                    g2[gid] = (pos, p)
                return nxt(p, g2)

            return self.m(list(sub), 0, s, pos, groups, after)
        if op == sc.BRANCH:
            for b in av[1]:
                r = self.m(list(b), 0, s, pos, groups, nxt)
                if r is not None:
                    return r
            return None
        if op in (sc.MAX_REPEAT, sc.MIN_REPEAT):
            lo, hi, sub = av
            sub = list(sub)
            greedy = op == sc.MAX_REPEAT

            def rep(count, p, g):
                def more():
                    if count < hi:
                        def again(p2, g2):
                            if p2 == p and count >= lo:
                                return None  # empty iteration guard
                            return rep(count + 1, p2, g2)

                        return self.m(sub, 0, s, p, g, again)
                    return None

                def stop():
                    return nxt(p, g) if count >= lo else None

                for f in ((more, stop) if greedy else (stop, more)):
                    r = f()
                    if r is not None:
                        return r
                return None

            return rep(0, pos, groups)
        if op == sc.AT:
            if av == sc.AT_BEGINNING:
                ok = pos == 0 or (bool(self.flags & re.M) and char_in(s.chars[pos - 1], [(10, 10)]))
            elif av == sc.AT_BEGINNING_STRING:
                ok = pos == 0
            elif av == sc.AT_END:
                ok = pos == len(s) or (pos == len(s) - 1 and char_in(s.chars[pos], [(10, 10)])) or (bool(self.flags & re.M) and pos < len(s) and char_in(s.chars[pos], [(10, 10)]))
            elif av == sc.AT_END_STRING:
                ok = pos == len(s)
            elif av in (sc.AT_BOUNDARY, sc.AT_NON_BOUNDARY):
                w = rex.table(r"\w", 0, module=self.module)
                a = pos > 0 and char_in(s.chars[pos - 1], w)
                b = pos < len(s) and char_in(s.chars[pos], w)
                ok = (a != b) if av == sc.AT_BOUNDARY else (a == b)
            else:
                raise NotEncodable(f"anchor {av}")
            return nxt(pos, groups) if ok else None
        if op in (sc.ASSERT, sc.ASSERT_NOT):
            if av[0] != 1:
                raise NotEncodable("look-behind")
            r = self.m(list(av[1]), 0, s, pos, groups, lambda p, g: (p, g))
            if (r is not None) == (op == sc.ASSERT):
                return nxt(pos, groups if r is None else r[1])
            return None
        raise NotEncodable(f"regex node {op}")

    def match_at(self, s, start):
        r = self.m(list(self.p), 0, s, start, {}, lambda p, g: (p, g))
        if r is None:
            return None
        return Match(s, start, r[0], r[1], self.names, self.back)

    def match(self, s):
        return self.match_at(s, 0)

    def fullmatch(self, s):
        r = self.m(list(self.p), 0, s, 0, {}, lambda p, g: (p, g) if p == len(s) else None)
        return None if r is None else Match(s, 0, r[0], r[1], self.names, self.back)

    def search(self, s, frm=0):
        for st in range(frm, len(s) + 1):
            r = self.match_at(s, st)
            if r is not None:
                return r
        return None

    def finditer(self, s):
        out, pos = [], 0
        while pos <= len(s):
            r = self.search(s, pos)
            if r is None:
                break
            out.append(r)
            pos = r.e if r.e > r.s else r.s + 1
        return out

    def findall(self, s):
        ms = self.finditer(s)
        n = max(self.names.values(), default=0)
        ngroups = self.p.state.groups - 1
        if ngroups == 0:
            return [m.group(0) for m in ms]
        if ngroups == 1:
            return [m.group(1) if m.group(1) is not None else CStr([]) for m in ms]
        return [tuple(m.group(i) if m.group(i) is not None else CStr([]) for i in range(1, ngroups + 1)) for m in ms]

    def sub(self, repl, s):
        if not isinstance(repl, str):
            raise NotEncodable("callable replacement")
        tpl = sp.parse_template(repl, _FakePat(self))
        out, pos = [], 0
        for m in self.finditer(s):
            out.extend(s.chars[pos : m.s])
            for piece in tpl:
                if isinstance(piece, str):
                    out.extend(ord(c) for c in piece)
                else:
                    g = m.group(piece)
                    if g is not None:
                        out.extend(g.chars)
            pos = m.e
        out.extend(s.chars[pos:])
        return CStr(out)


class _FakePat:
    def __init__(self, m):
        self.groups = m.p.state.groups - 1
        self.groupindex = dict(m.names)


def class_ranges_full(av, flags, module=re):
    """like rex.class_ranges but over all code points (the sentinels are ordinary characters here)."""
    ci = flags & re.I
    simple = not ci and all(op in (sc.NEGATE, sc.LITERAL, sc.RANGE) for op, _ in av)
    if simple:
        neg = False
        rs = []
        for op, a in av:
            if op == sc.NEGATE:
                neg = True
            elif op == sc.LITERAL:
                rs.append((a, a))
            else:
                rs.append(tuple(a))
        rs = rex.norm(rs)
        return rex.compl(rs, sentinels=False) if neg else rs
    return rex.table(rex.cls_src(av), ci, module=module)


# ---------------------------------------------------------------- interpreter hooks
def install(it):
    """route re / regex module calls with a CStr subject to the matcher; concrete subjects stay native."""
    import regex as rx

    def has_c(x):
        return isinstance(x, CStr)

    def mk(mod, name):
        native = getattr(mod, name)

        def f(pattern, *a, **kw):
            flags = kw.get("flags", 0)
            if name == "sub":
                repl, s = a[0], a[1]
                if not has_c(s):
                    return native(pattern, *a, **kw)
                if len(a) > 2 or any(k not in ("flags",) for k in kw):
                    raise NotEncodable("re.sub with count")
                return Matcher(pattern, flags, module=mod).sub(repl, s)
            s = a[0]
            if len(a) > 1:
                flags = a[1]
            if not has_c(s):
                return native(pattern, *a, **kw)
            M_ = Matcher(pattern, flags, module=mod)
            return getattr(M_, name)(s)

        return f

    for mod in (re, rx):
        for name in ("sub", "search", "match", "fullmatch", "finditer", "findall"):
            it.stubs[getattr(mod, name)] = mk(mod, name)

    def pattern_hook(pat, name, args, kwargs):
        if kwargs or name not in ("sub", "search", "match", "fullmatch", "finditer", "findall"):
            raise NotEncodable(f"compiled pattern .{name} with these arguments on a symbolic string")
        subj = args[1] if name == "sub" else args[0]
        if not isinstance(subj, CStr) or len(args) > (2 if name == "sub" else 1):
            raise NotEncodable(f"compiled pattern .{name} on {type(subj).__name__}")
        M_ = Matcher(pat.pattern, pat.flags, module=rx if type(pat).__module__.startswith("_regex") or type(pat).__module__.startswith("regex") else re)
        return M_.sub(args[0], subj) if name == "sub" else getattr(M_, name)(subj)

    it.pattern_hook = pattern_hook
