"""Lemma behind the PinStr abstraction of the resolver harness (C05 / C07 / C04): the id. pin-cite
plausibility test on *text*.

The resolver harness (c06) models a pin cite as (numeric?, leading number) and stubs the one regex call that
parses it.  Here the real `_has_invalid_pin_cite` is executed on a pin cite of <= N symbolic characters
(all of Unicode, symbolic regex matcher E3, int() as the decimal value of the matched digits) against the
property's wording:

    invalid  <=>  the pin cite does not start (after an optional 'at ') with a decimal number
                  or that number lies before the first page or more than MAX_OPINION_PAGE_COUNT beyond it

for an arbitrary first page p >= 0.  Counter-models are replayed on the real function natively.
"""
import re

import z3

from vf import common, rex, symex, symre
from vf.symex import SInt, lift_int, mval

_BLOCKS = None


def digit_blocks():
    """[(lo, hi, base)]: code points lo..hi are decimal digits (re's \\d) with value cp - base."""
    global _BLOCKS
    if _BLOCKS is None:
        out = []
        for a, b in rex.table(r"\d", 0):
            cp = a
            while cp <= b:
                base = cp - int(chr(cp))
                hi = cp
                while hi + 1 <= b and (hi + 1) - int(chr(hi + 1)) == base:
                    hi += 1
                out.append((cp, hi, base))
                cp = hi + 1
        _BLOCKS = out
    return _BLOCKS


def is_digit(c):
    c = c if z3.is_expr(c) else z3.IntVal(c)
    return z3.Or(*[z3.And(c >= lo, c <= hi) for lo, hi, _ in digit_blocks()])


def digit_value(c):
    c = c if z3.is_expr(c) else z3.IntVal(c)
    e = z3.IntVal(0)
    for lo, hi, base in digit_blocks():
        e = z3.If(z3.And(c >= lo, c <= hi), c - base, e)
    return e


def number_value(chars):
    e = z3.IntVal(0)
    for c in chars:
        e = e * 10 + digit_value(c)
    return e


class SymPage:
    """the first page of the antecedent: the decimal rendering of an arbitrary non-negative integer."""

    def __init__(self, p):
        self.p = p

    def __bool__(self):
        return True

    def isdigit(self):
        return True

    def isdecimal(self):
        return True


class HPin(common.Harness):
    def __init__(self, params):
        super().__init__(params)
        import eyecite.models as M
        import eyecite.resolve as R

        self.M, self.R = M, R
        self.N = params["N"]
        symre.install(self.interp)
        self.interp.stubs[int] = self.stub_int

    def stub_int(self, x=0, *a):
        if isinstance(x, SymPage):
            return SInt(x.p)
        if isinstance(x, symre.CStr):
            if a:
                raise symex.NotEncodable("int(symbolic, base)")
            # int(str): surrounding whitespace, one sign, then decimal digits (single underscores between digits
            # are accepted by CPython too: a model that relies on them is sorted out by the native replay)
            x = x.strip()
            sign = 1
            if len(x) and isinstance(x.chars[0], int) and x.chars[0] in (43, 45):
                sign = -1 if x.chars[0] == 45 else 1
                x = symre.CStr(x.chars[1:])
            elif len(x) and not isinstance(x.chars[0], int):
                k = self.eng.choose([x.chars[0] == 43, x.chars[0] == 45, z3.And(x.chars[0] != 43, x.chars[0] != 45)])
                if k < 2:
                    sign = 1 if k == 0 else -1
                    x = symre.CStr(x.chars[1:])
            chars = [c if z3.is_expr(c) else z3.IntVal(c) for c in x.chars]
            alld = z3.And(*[is_digit(c) for c in chars]) if chars else z3.BoolVal(False)
            if self.eng.choose([alld, z3.Not(alld)]) == 1:
                raise ValueError("invalid literal for int()")
            return SInt(sign * number_value(chars))
        return int(x, *a)

    def run(self):
        eng, M = self.eng, self.M
        n = eng.choose([z3.Int("len") == k for k in range(self.N + 1)])
        self.chars = [z3.Int(f"c{i}") for i in range(n)]
        for c in self.chars:
            eng.add(c >= 0, c <= 0x10FFFF)
        self.p = z3.Int("page")
        eng.add(self.p >= 0)
        full = M.FullCaseCitation(M.CitationToken("1 U.S. 1", 0, 8, groups={"volume": "1", "reporter": "U.S.", "page": "1"}), 0)
        full.groups = {"volume": "1", "reporter": "U.S.", "page": SymPage(self.p)}
        idc = M.IdCitation(M.IdToken("Id.", 10, 13), 1)
        idc.metadata.pin_cite = symre.CStr(list(self.chars)) if n else ""
        return self.interp.call(self.R._has_invalid_pin_cite, (full, idc), {})

    def spec(self):
        """the property's wording as one z3 term over the characters (no forking)."""
        cs = self.chars
        mx = self.R.MAX_OPINION_PAGE_COUNT
        if not cs:
            return z3.BoolVal(False)  # no pin cite: nothing to object to

        def from_(off):
            rest = cs[off:]
            e = z3.BoolVal(True)  # no leading digit: invalid
            # longest leading digit run, longest first
            for k in range(len(rest), 0, -1):
                run = z3.And(*[is_digit(c) for c in rest[:k]])
                if k < len(rest):
                    run = z3.And(run, z3.Not(is_digit(rest[k])))
                v = number_value(rest[:k])
                e = z3.If(run, z3.Or(v < self.p, v > self.p + mx), e)
            return e

        if len(cs) >= 3:
            at = z3.And(cs[0] == ord("a"), cs[1] == ord("t"), cs[2] == ord(" "))
            return z3.If(at, from_(3), from_(0))
        return from_(0)

    def witness(self, m):
        return {"pin_cite": "".join(chr(mval(m, c) or 0) for c in self.chars), "page": mval(m, self.p)}

    def describe(self, kind, out):
        m = self.eng.path_model()
        return self.witness(m) if m is not None else {}

    def judge(self, kind, out):
        if kind == "exc":
            return [self.check("C04:resolve:pin_cite_test_raises:" + type(out).__name__, False, self.witness)]
        got = out.e if isinstance(out, symex.SBool) else z3.BoolVal(bool(out))
        return [self.check("C07:id_pin_cite_is_rejected_exactly_when_non_numeric_or_outside_the_page_window", got == self.spec(), self.witness)]


_PAGE_UNION = None


def page_union():
    """one alternation of the distinct `page` sub-patterns of the installed extractors (read from the live
    objects): the strings a first page can be."""
    global _PAGE_UNION
    if _PAGE_UNION is None:
        import eyecite.tokenizers as T

        subs = []
        for e in T.EXTRACTORS:
            rx = e.regex
            for m in re.finditer(r"\(\?P<page>", rx):
                i = j = m.start()
                depth = 0
                while j < len(rx):
                    ch = rx[j]
                    if ch == "\\":
                        j += 2
                        continue
                    if ch == "[":
                        j += 1
                        if rx[j] == "^":
                            j += 1
                        if rx[j] == "]":
                            j += 1
                        while rx[j] != "]":
                            if rx[j] == "\\":
                                j += 1
                            j += 1
                    elif ch == "(":
                        depth += 1
                    elif ch == ")":
                        depth -= 1
                        if depth == 0:
                            break
                    j += 1
                inner = rx[m.end() : j]
                if inner not in subs:
                    subs.append(inner)
        _PAGE_UNION = subs
    return _PAGE_UNION


class HPinPage(HPin):
    """the same test with the antecedent's first page as *text*: any string of <= P characters that one of the
    database's page patterns accepts (digits with a letter suffix, roman numerals, ...), any pin cite of <= N
    characters."""

    def __init__(self, params):
        super().__init__(params)
        self.P = params["P"]
        self.pm = symre.Matcher("(?:%s)" % "|".join("(?:%s)" % x for x in page_union()), 0)

    def run(self):
        eng, M = self.eng, self.M
        n = eng.choose([z3.Int("len") == k for k in range(self.N + 1)])
        self.chars = [z3.Int(f"c{i}") for i in range(n)]
        for c in self.chars:
            eng.add(c >= 0, c <= 0x10FFFF)
        k = 1 + eng.choose([z3.Int("pagelen") == j for j in range(1, self.P + 1)])
        self.pchars = [z3.Int(f"g{i}") for i in range(k)]
        for c in self.pchars:
            eng.add(c >= 0, c <= 0x10FFFF)
        page = symre.CStr(list(self.pchars))
        if self.pm.fullmatch(page) is None:
            raise symex.Infeasible()
        self.p = None
        full = M.FullCaseCitation(M.CitationToken("1 U.S. 1", 0, 8, groups={"volume": "1", "reporter": "U.S.", "page": "1"}), 0)
        full.groups = {"volume": "1", "reporter": "U.S.", "page": page}
        idc = M.IdCitation(M.IdToken("Id.", 10, 13), 1)
        idc.metadata.pin_cite = symre.CStr(list(self.chars)) if n else ""
        return self.interp.call(self.R._has_invalid_pin_cite, (full, idc), {})

    def spec(self):
        # a first page that is not a plain decimal number cannot be compared with: nothing to object to
        alld = z3.And(*[is_digit(c) for c in self.pchars])
        self.p = number_value(self.pchars)
        return z3.And(alld, HPin.spec(self))

    def witness(self, m):
        return {"pin_cite": "".join(chr(mval(m, c) or 0) for c in self.chars), "page": "".join(chr(mval(m, c) or 0) for c in self.pchars)}


def make(params):
    return HPinPage(params) if params.get("P") else HPin(params)


def spec_py(pin, page, mx):
    if not pin:
        return False
    if isinstance(page, str):
        if not re.fullmatch(r"\d+", page):
            return False
        page = int(page)
    off = 3 if pin.startswith("at ") else 0
    k = 0
    while off + k < len(pin) and re.fullmatch(r"\d", pin[off + k]):
        k += 1
    if k == 0:
        return True
    v = int(pin[off : off + k])
    return v < page or v > page + mx


def real(pin, page):
    import eyecite.models as M
    import eyecite.resolve as R

    full = M.FullCaseCitation(M.CitationToken(f"1 U.S. {page}", 0, 8, groups={"volume": "1", "reporter": "U.S.", "page": str(page)}), 0)
    idc = M.IdCitation(M.IdToken("Id.", 10, 13), 1)
    idc.metadata.pin_cite = pin or None
    try:
        return bool(R._has_invalid_pin_cite(full, idc)), R.MAX_OPINION_PAGE_COUNT
    except Exception as ex:
        return "raised " + type(ex).__name__, R.MAX_OPINION_PAGE_COUNT


def fold(rep, pid):
    """run the lemma and report under property `pid` (C07 / C05: the iff; C04: no exception)."""
    quick = rep.tier == "quick"
    N = 6 if quick else 8  # measured: 87 paths / 17 s at 6, 159 paths / 28 s at 8
    rep.bounds.append(f"pin-cite lemma: _has_invalid_pin_cite on a pin cite of <= {N} arbitrary characters (all of Unicode) and an arbitrary first page")
    rep.stubs.append("int() on a symbolic string: whitespace stripped, optional sign, then the decimal value of Unicode decimal digits; anything else raises ValueError")
    agg = common.explore_split("vf.harness.pinlemma", {"N": N}, depth=3)
    rep.merge_explore("pin_cite_lemma", agg)
    NP, PP = (2, 2) if quick else (4, 3)  # measured: 192 paths / 15 s at (2, 2), 1,077 paths / 81 s at (4, 3)
    rep.bounds.append(f"... and with the first page as text: any string of <= {PP} characters accepted by one of the {len(page_union())} page patterns of the installed extractors, pin cite of <= {NP} arbitrary characters")
    agg2 = common.explore_split("vf.harness.pinlemma", {"N": NP, "P": PP}, depth=3)
    rep.merge_explore("pin_cite_lemma_page_text", agg2)
    for k, v in agg2["verdicts"].items():
        agg["verdicts"][k] = agg["verdicts"].get(k, 0) + v
    agg["findings"] = agg["findings"] + agg2["findings"]
    agg["paths"] += agg2["paths"]
    pref = ("C04:",) if pid == "C04" else ("C07:", "C04:")
    n_ob = sum(v for k, v in agg["verdicts"].items() if k.startswith(pref))
    n_ok = sum(v for k, v in agg["verdicts"].items() if k.startswith(pref) and k.endswith(":valid"))
    rep.oblige(n_ok)
    rep.oblige(n_ob - n_ok, ok=False)
    if agg["paths"] == 0 and not agg["errors"]:
        rep.inconc("pin-cite lemma: no feasible path")
    shown = 0
    for f in agg["findings"]:
        if not f["clause"].startswith(pref):
            continue
        if f["verdict"] != "cex":
            rep.inconc(f"pin-cite lemma {f['clause']}: solver verdict {f['verdict']}")
            continue
        w = f["witness"]
        rep.replays += 1
        got, mx = real(w["pin_cite"], w["page"])
        want = spec_py(w["pin_cite"], w["page"], mx)
        if got != want:
            if shown < 3:
                rep.violation(f"_has_invalid_pin_cite(first page {w['page']}, pin cite {w['pin_cite']!r}) -> {got}; by the property's wording (numeric start within [page, page+{mx}]) it is {want}", {"kind": "pin", "pin_cite": w["pin_cite"], "page": w["page"]})
            shown += 1
        else:
            rep.spurious += 1
            rep.inconc(f"pin-cite lemma: model {w} did not reproduce on the real function")


def replay(r):
    got, mx = real(r["pin_cite"], r["page"])
    want = spec_py(r["pin_cite"], r["page"], mx)
    print(got, want)
    return 1 if got != want else 0
