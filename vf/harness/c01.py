"""C01 — standard citation forms are recognised (partial).

End-to-end C01 needs the capture semantics of the regex engines over 300-character windows, courts-db
lookups and party-name scanning; that is not encodable.  Decided here, for every string of the installed
database:
  (1) recognisability (E1, no length bound): for every citation extractor that recognises the minimal form
      '1 R 1' (resp. '1 R at 1') of one of its reporter strings R, *every* text  V R P  with V in [1-9]\\d*
      and P in \\d+ (placed between non-alphanumeric neighbours or at the text ends) is in the extractor's
      search language;
  (2) reporter-group exactness (E1): for those extractors the language of the `reporter` group is exactly
      the set of strings listed for the extractor (catches a lost re.escape or a widened class);
  (3) short-form derivation (structural): the short extractors are exactly the regexes obtained from a full
      extractor by inserting 'at ' before the page group, with the same editions;
  (4) class wiring (E2): _extract_full_citation picks the citation class from the edition sources
      (reporters > laws > journals) and passes on the token's groups and editions; _extract_shortform_citation
      passes on the token's groups and both candidate-edition tuples;
  (5) exact captures on short contexts (E2 + symbolic matcher): for every documented trailing pin-cite
      context  [,][ ][at ]D+ T  with D+ one or two arbitrary digits and T a documented terminator, followed
      by <= 1 arbitrary character, POST_SHORT_CITATION_REGEX / POST_FULL_CITATION_REGEX capture exactly the
      written pin cite; the symbolic matcher is validated against the real `regex` engine on every path.
  (8) year / court contexts (E3): on  [pin] ' (' [court ' '] YYYY ')' [tail]  POST_FULL_CITATION_REGEX captures exactly
      the written pin cite, court and year and ends at the parenthesis;
  (9) antecedent contexts (E3): the short-form and supra antecedent patterns, anchored at the end as
      match_on_tokens runs them, capture exactly the written name (2..4 arbitrary characters of the documented
      class) and an optional supra volume;
  (6) full-span start = extracted plaintiff; (7) the full span of a full case / law / journal citation covers
      its parenthetical and the closing parenthesis (E2 on add_post_citation / add_law_metadata /
      add_journal_metadata, with the "what follows the group inside the match" fact read off the pattern AST).
NOT decided: captures on longer contexts, party names, courts, "exactly one citation per written citation"
under overlapping patterns, full-span ends beyond clause (7).
"""
import multiprocessing as mp
import os
import random
import re
import re._constants as sc
import re._parser as sp

import z3

from vf import common, rex, symex, symre

_S = {}


def setup():
    if _S:
        return _S
    import eyecite.models as M
    import eyecite.tokenizers as T

    exts = [e for e in T.EXTRACTORS if e.constructor == M.CitationToken.from_match or getattr(e.constructor, "__func__", None) is M.CitationToken.from_match.__func__]
    _S.update(T=T, M=M, exts=exts)
    return _S


_DEFAULT = None


def default_strings():
    """reporter / law / journal strings whose database entry uses the default citation template (no
    'regexes' of its own): read from the reporters-db data, not from eyecite's code."""
    global _DEFAULT
    if _DEFAULT is not None:
        return _DEFAULT
    from reporters_db import JOURNALS, LAWS, REPORTERS

    out = set()
    for cluster in REPORTERS.values():
        for source in cluster:
            for ed, data in source["editions"].items():
                if not data.get("regexes"):
                    out.add(ed)
                    out.update(k for k, v in source["variations"].items() if v == ed)
    for db in (LAWS, JOURNALS):
        for key, cluster in db.items():
            for source in cluster:
                if not source.get("regexes"):
                    out.add(key)
                    out.update(source.get("variations", []))
    _DEFAULT = out
    return out


def minimal_ok(e):
    """the default-template reporter strings R of e whose minimal form is recognised with the reporter group == R."""
    short = bool(e.extra.get("short"))
    out = []
    dflt = default_strings()
    for s in e.strings:
        if s not in dflt:
            continue
        t = f"1 {s} at 1" if short else f"1 {s} 1"
        m = e.compiled_regex.search(t)
        if m and m.groupdict().get("reporter") == s and m.group(1) == t:
            out.append(s)
    return out


def reporter_group(p):
    """(gid, subpattern) of the named group `reporter`."""
    gid = dict(p.state.groupdict).get("reporter")
    if gid is None:
        return None

    def find(seq):
        for op, av in seq:
            if op == sc.SUBPATTERN:
                if av[0] == gid:
                    return av[3]
                r = find(av[3])
                if r is not None:
                    return r
            elif op == sc.BRANCH:
                for b in av[1]:
                    r = find(b)
                    if r is not None:
                        return r
            elif op in (sc.MAX_REPEAT, sc.MIN_REPEAT):
                r = find(av[2])
                if r is not None:
                    return r
        return None

    return find(p)


BUDGET = 1


def job_retry(i):
    """second pass for 'unknown' (a loaded machine): 8x the time limits, run with fewer processes."""
    global BUDGET
    BUDGET = 8
    try:
        return job(i)
    finally:
        BUDGET = 1


def job(i):
    st = setup()
    e = st["exts"][i]
    out = {"i": i, "recognise": None, "exact": None, "witness": None, "strings": 0, "ok": [], "short": bool(e.extra.get("short"))}
    ok = minimal_ok(e)
    out["strings"] = len(ok)
    out["ok"] = list(ok)
    if not ok:
        out["recognise"] = out["exact"] = "skipped:no minimal form"
        return out
    short = bool(e.extra.get("short"))
    try:
        p = rex.parse(e.regex, e.flags)
        if not rex.anchors_ok(p):
            out["recognise"] = out["exact"] = "unsupported:anchors"
            return out
        R = rex.tr(p, e.flags)
        digits = z3.Range("0", "9")
        vol = z3.Concat(z3.Range("1", "9"), z3.Star(digits))
        page = z3.Plus(digits)
        rep_ = [rex.lit(s) for s in ok]
        rep_ = rep_[0] if len(rep_) == 1 else z3.Union(*rep_)
        mid = z3.Concat(vol, rex.lit(" "), rep_, rex.lit(" at " if short else " "), page)
        nonalnum = rex.ranges_to_re(rex.compl([(48, 57), (65, 90), (97, 122)]))
        left = z3.Union(rex.lit(rex.BOS), z3.Concat(rex.lit(rex.BOS), rex.sigma_star(), nonalnum))
        right = z3.Union(rex.lit(rex.EOS), z3.Concat(nonalnum, rex.sigma_star(), rex.lit(rex.EOS)))
        form = z3.Concat(left, mid, right)
        v, w = rex.solve_in(z3.Intersect(form, z3.Complement(rex.search_lang(R))), timeout_ms=60000 * BUDGET, seed=common.seed())
        out["recognise"] = v
        if v == "sat":
            out["witness"] = ("recognise", rex.strip_sentinels(w))
            return out
        # exactness of the reporter group (for the extractors that pass (1))
        sub = reporter_group(p)
        if sub is None:
            out["exact"] = "skipped:no reporter group"
            return out
        G = rex.tr(sub, e.flags)
        listed = [rex.lit(s) for s in e.strings]
        listed = listed[0] if len(listed) == 1 else z3.Union(*listed)
        v2, w2 = rex.solve_in(z3.Intersect(G, z3.Complement(listed)), timeout_ms=60000 * BUDGET, seed=common.seed())
        if v2 == "unsat":
            v2, w2 = rex.solve_in(z3.Intersect(listed, z3.Complement(G)), timeout_ms=60000 * BUDGET, seed=common.seed())
        out["exact"] = v2
        if v2 == "sat":
            out["witness"] = ("exact", rex.z3_unescape(w2))
    except rex.Unsupported as ex:
        out["recognise"] = out["exact"] = f"unsupported:{ex}"
    return out


# ---------------------------------------------------------------- (5) short contexts with the symbolic matcher
PREFIXES = ["", ",", " ", ", ", ", at ", " at ", "at "]
PIN_SHAPES = ["D", "DD", "D-D", "D:D", "D:D-D", "D:D-D:D"]
TERMS = [".", ",", ";", ")", "]", " (", " [", ""]


class HCtx(common.Harness):
    def __init__(self, params):
        super().__init__(params)
        import regex

        import eyecite.regexes as RX

        self.regex = regex
        name = params["pattern"]
        self.pat = "^(?:%s)" % getattr(RX, name)
        self.matcher = symre.Matcher(self.pat, re.X, module=regex)
        self.real = regex.compile(self.pat, regex.X)

    def run(self):
        eng = self.eng
        P = PREFIXES[eng.choose([z3.Int("prefix") == k for k in range(len(PREFIXES))])]
        # the written pin cite: one or two digits, or one of the documented range / page:line shapes
        shape = PIN_SHAPES[eng.choose([z3.Int("shape") == k for k in range(len(PIN_SHAPES))])]
        nd = len(shape)
        T = TERMS[eng.choose([z3.Int("term") == k for k in range(len(TERMS))])]
        extra = 0 if T == "" else eng.choose([z3.Int("extra") == k for k in range(2)])
        digs = []
        for i, ch in enumerate(shape):
            if ch == "D":
                d = z3.Int(f"d{i}")
                eng.add(d >= 48, d <= 57)
                digs.append(d)
            else:
                digs.append(ord(ch))
        tail = [z3.Int(f"x{i}") for i in range(extra)]
        for x in tail:
            eng.add(x >= 0, x <= 0x10FFFF)
            if T == ",":
                # after a comma the text must not continue the pin cite: no digit, space or pin-cite label
                import regex

                dig = rex.table(r"\d", 0, module=regex)
                eng.add(z3.Not(z3.Or(*[z3.And(x >= a, x <= b) for a, b in dig])), x != 32, *[x != ord(ch) for ch in "&nf¶§*p"])
        s = symre.CStr([ord(c) for c in P] + digs + [ord(c) for c in T] + tail)
        self.s, self.P, self.nd, self.T = s, P, nd, T
        return self.matcher.match(s)

    def witness(self, m):
        return {"context": self.s.concrete(m), "prefix": self.P, "digits": self.nd, "terminator": self.T}

    def describe(self, kind, out):
        m = self.eng.path_model()
        return self.witness(m) if m is not None else {}

    def judge(self, kind, out):
        if kind == "exc":
            return [self.check("C01:ctx:no_exception:" + type(out).__name__, False, self.witness)]
        want = (0, len(self.P) + self.nd)
        got = out.span("pin_cite") if out is not None else None
        fs = [self.check("C01:ctx:pin_cite_captured_is_the_written_pin_cite", z3.BoolVal(got == want), self.witness)]
        # translator validation: the real engine on a model of this path
        m = self.eng.path_model()
        agree = True
        if m is not None:
            txt = self.s.concrete(m)
            r = self.real.match(txt)
            agree = (r is None) == (out is None) and (r is None or (r.span() == (out.s, out.e) and r.span("pin_cite") == got))
        fs.append(self.check("C01:ctx:symbolic_matcher_agrees_with_regex_engine", z3.BoolVal(agree), self.witness))
        return fs


# ---------------------------------------------------------------- (8) year / court contexts
YPINS = ["", ", D", ", DD", " at D"]
YCOURTS = [0, 2, 3]
YTAILS = ["", ".", "X"]


class HCtxYear(common.Harness):
    """POST_FULL_CITATION_REGEX on the documented year parenthesis  [pin] ' (' [court ' '] YYYY ')' [tail]:
    the pin cite, the court and the year are arbitrary (digits / non-bracket non-blank non-digit characters),
    the capture groups must be exactly the written components and the match must end at the parenthesis."""

    def __init__(self, params):
        super().__init__(params)
        import regex

        import eyecite.regexes as RX

        self.pat = "^(?:%s)" % RX.POST_FULL_CITATION_REGEX
        self.matcher = symre.Matcher(self.pat, re.X, module=regex)
        self.real = regex.compile(self.pat, regex.X)

    def run(self):
        eng = self.eng
        pin = YPINS[eng.choose([z3.Int("pin") == k for k in range(len(YPINS))])]
        nc = YCOURTS[eng.choose([z3.Int("court") == k for k in range(len(YCOURTS))])]
        tail = YTAILS[eng.choose([z3.Int("tail") == k for k in range(len(YTAILS))])]
        br = eng.choose([z3.Int("bracket") == k for k in range(2)])
        import regex

        dig = rex.table(r"\d", 0, module=regex)
        spc = rex.table(r"\s", 0, module=regex)
        chars, self.vars = [], []

        def digit(tag):
            d = z3.Int(tag)
            eng.add(d >= 48, d <= 57)
            self.vars.append(d)
            return d

        for ch in pin:
            chars.append(digit(f"p{len(chars)}") if ch == "D" else ord(ch))
        self.pin_len = len(chars)
        chars += [32, ord("([")[br] if False else ord("(" if br == 0 else "[")]
        c0 = len(chars)
        for i in range(nc):
            x = z3.Int(f"c{i}")
            eng.add(x >= 33, x <= 0x10FFFF, *[x != ord(ch) for ch in "()[];"])
            eng.add(z3.Not(z3.Or(*[z3.And(x >= a, x <= b) for a, b in dig])), z3.Not(z3.Or(*[z3.And(x >= a, x <= b) for a, b in spc])))
            self.vars.append(x)
            chars.append(x)
        self.court = (c0, c0 + nc) if nc else None
        if nc:
            chars.append(32)
        y0 = len(chars)
        chars += [digit(f"y{i}") for i in range(4)]
        self.year = (y0, y0 + 4)
        chars.append(ord(")" if br == 0 else "]"))
        self.end = len(chars)
        for ch in tail:
            if ch == "X":
                x = z3.Int("t0")
                # anything that does not open a parenthetical
                eng.add(x >= 0, x <= 0x10FFFF, x != 40, x != 32)
                self.vars.append(x)
                chars.append(x)
            else:
                chars.append(ord(ch))
        self.s = symre.CStr(chars)
        self.cfg = (pin, nc, tail, br)
        return self.matcher.match(self.s)

    def witness(self, m):
        return {"context": self.s.concrete(m), "pin": self.cfg[0], "court_chars": self.cfg[1], "tail": self.cfg[2], "want": {"year": list(self.year), "court": list(self.court) if self.court else None, "pin_cite": [0, self.pin_len] if self.pin_len else None, "end": self.end}}

    def describe(self, kind, out):
        m = self.eng.path_model()
        return self.witness(m) if m is not None else {}

    def judge(self, kind, out):
        if kind == "exc":
            return [self.check("C01:yctx:no_exception:" + type(out).__name__, False, self.witness)]
        want_pin = (0, self.pin_len) if self.pin_len else None
        got = None if out is None else {g: out.span(g) for g in ("pin_cite", "court", "year", "extra", "parenthetical")}
        for g in ("pin_cite", "court", "year", "extra", "parenthetical"):
            if got and (got[g] == (-1, -1) or got[g][0] == got[g][1]):
                got[g] = None  # an empty capture says the same as no capture (the code tests truthiness)
        ok = got is not None and got["year"] == self.year and got["court"] == self.court and got["pin_cite"] == want_pin and got["extra"] is None and got["parenthetical"] is None and out.e == self.end
        fs = [self.check("C01:yctx:year_court_and_pin_cite_captured_are_the_written_ones", z3.BoolVal(bool(ok)), self.witness)]
        m = self.eng.path_model()
        agree = True
        if m is not None:
            txt = self.s.concrete(m)
            r = self.real.match(txt)
            agree = (r is None) == (out is None) and (r is None or (r.span() == (out.s, out.e) and all(r.span(g) == out.span(g) for g in ("year", "court", "pin_cite"))))
        fs.append(self.check("C01:yctx:symbolic_matcher_agrees_with_regex_engine", z3.BoolVal(agree), self.witness))
        return fs


# ---------------------------------------------------------------- (9) antecedent contexts (backward scans)
ASEPS = [" ", ", ", " , "]
APREFIX = ["", " ", "X "]


class HCtxAnte(common.Harness):
    """SHORT_CITE_ANTECEDENT_REGEX / SUPRA_ANTECEDENT_REGEX anchored at the end of the scanned text, as
    match_on_tokens runs them, on  [one arbitrary character + ' '] Name [,] ' '  with a Name of 2..4 arbitrary
    characters of the class the pattern documents: the antecedent captured is exactly the written name and the
    match reaches from the name to the end (so the full span starts at the written antecedent)."""

    def __init__(self, params):
        super().__init__(params)
        import regex

        import eyecite.regexes as RX

        self.name = params["pattern"]
        self.pat = "(?:%s)$" % getattr(RX, self.name)
        self.matcher = symre.Matcher(self.pat, re.X, module=regex)
        self.real = regex.compile(self.pat, regex.X)

    def cls(self, x, src):
        import regex

        rs = rex.table(src, 0, module=regex)
        return z3.Or(*[z3.And(x >= a, x <= b) if a != b else x == a for a, b in rs])

    def run(self):
        eng = self.eng
        pre = APREFIX[eng.choose([z3.Int("prefix") == k for k in range(len(APREFIX))])]
        nn = 2 + eng.choose([z3.Int("namelen") == k for k in range(3)])
        sep = ASEPS[eng.choose([z3.Int("sep") == k for k in range(len(ASEPS))])]
        vol = 0
        if self.name == "SUPRA_ANTECEDENT_REGEX":
            vol = eng.choose([z3.Int("voldigits") == k for k in range(3)])
        chars = []
        for ch in pre:
            if ch == "X":
                x = z3.Int("x0")
                eng.add(x >= 0, x <= 0x10FFFF, x != 10)
                chars.append(x)
            else:
                chars.append(ord(ch))
        n0 = len(chars)
        for i in range(nn):
            x = z3.Int(f"n{i}")
            eng.add(x >= 0, x <= 0x10FFFF)
            if self.name == "SHORT_CITE_ANTECEDENT_REGEX":
                eng.add(self.cls(x, r"[A-Za-z]") if i == 0 else self.cls(x, r"[\w\-.]"))
            else:
                # a supra antecedent: word characters, '-' and '.'; not all digits (a number is read as a volume)
                eng.add(self.cls(x, r"[\w\-.]"))
                if i == 0:
                    eng.add(z3.Not(self.cls(x, r"\d")))
            chars.append(x)
        self.want = (n0, n0 + nn)
        chars += [ord(c) for c in sep]
        self.wvol = None
        if vol:
            v0 = len(chars)
            for i in range(vol):
                d = z3.Int(f"v{i}")
                eng.add(self.cls(d, r"\d"))
                chars.append(d)
            self.wvol = (v0, v0 + vol)
            chars.append(32)
        self.s = symre.CStr(chars)
        self.cfg = (pre, nn, sep, vol)
        return self.matcher.search(self.s)

    def witness(self, m):
        return {"context": self.s.concrete(m), "want": {"antecedent": list(self.want), "volume": list(self.wvol) if self.wvol else None, "end": len(self.s)}}

    def describe(self, kind, out):
        m = self.eng.path_model()
        return self.witness(m) if m is not None else {}

    def judge(self, kind, out):
        if kind == "exc":
            return [self.check("C01:actx:no_exception:" + type(out).__name__, False, self.witness)]
        ok = out is not None and out.span("antecedent") == self.want and out.s == self.want[0] and out.e == len(self.s)
        if ok and self.name == "SUPRA_ANTECEDENT_REGEX":
            ok = out.span("volume") == (self.wvol or (-1, -1))
        fs = [self.check("C01:actx:antecedent_captured_is_the_written_name", z3.BoolVal(bool(ok)), self.witness)]
        m = self.eng.path_model()
        agree = True
        if m is not None:
            r = self.real.search(self.s.concrete(m))
            agree = (r is None) == (out is None) and (r is None or (r.span() == (out.s, out.e) and r.span("antecedent") == out.span("antecedent")))
        fs.append(self.check("C01:actx:symbolic_matcher_agrees_with_regex_engine", z3.BoolVal(agree), self.witness))
        return fs


class HWire(common.Harness):
    def __init__(self, params):
        super().__init__(params)
        import eyecite.find as F
        import eyecite.models as M

        self.F, self.M = F, M
        for cls in (M.FullCaseCitation, M.FullLawCitation, M.FullJournalCitation):
            self.interp.stubs[cls.add_metadata] = lambda slf, words: None
        # short form: no antecedent, no pin cite (those are C02's harnesses); what is decided here is which
        # candidate editions and groups reach the citation object
        import eyecite.helpers as Hh

        self.interp.stubs[F.match_on_tokens] = lambda *a, **k: None
        self.interp.stubs[Hh.match_on_tokens] = lambda *a, **k: None
        self.interp.stubs[F.extract_pin_cite] = lambda *a, **k: (None, None, None)
        self.interp.stubs[M.ShortCaseCitation.add_metadata] = lambda slf, words: None
        self.interp.stubs[M.ResourceCitation.guess_edition] = lambda slf: None

    def run(self):
        M, eng = self.M, self.eng
        srcs = ["reporters", "laws", "journals"]
        pick = lambda tag: [s for s in srcs if eng.choose([z3.Bool(f"{tag}_{s}"), z3.Not(z3.Bool(f"{tag}_{s}"))]) == 0]
        ex, va = pick("exact"), pick("var")
        mk = lambda s, i: M.Edition(M.Reporter(f"R{s}{i}", "n", "state", s), f"E{s}{i}", None, None)
        self.ex, self.va = ex, va
        tok = M.CitationToken("1 X 2", 3, 8, groups={"volume": "1", "reporter": "X", "page": "2"}, exact_editions=tuple(mk(s, 0) for s in ex), variation_editions=tuple(mk(s, 1) for s in va))
        self.tok = tok
        self.short = bool(ex or va) and "reporters" in (ex or va) and eng.choose([z3.Bool("short_form"), z3.Not(z3.Bool("short_form"))]) == 0
        if self.short:
            tok.short = True
            return self.interp.call(self.F._extract_shortform_citation, ([tok], 0), {})
        return self.interp.call(self.F._extract_full_citation, ([tok], 0), {})

    def witness(self, m):
        return {"exact_sources": self.ex, "variation_sources": self.va, "short_form": getattr(self, "short", False)}

    def describe(self, kind, out):
        return self.witness(None)

    def judge(self, kind, out):
        M = self.M
        srcs = self.ex or self.va
        if kind == "exc":
            ok = isinstance(out, ValueError) and not srcs
            return [self.check("C01:wiring:class_follows_edition_sources", z3.BoolVal(ok), self.witness)]
        want = M.FullCaseCitation if "reporters" in srcs else M.FullLawCitation if "laws" in srcs else M.FullJournalCitation if "journals" in srcs else None
        if getattr(self, "short", False):
            want = M.ShortCaseCitation
        ok = want is not None and type(out) is want and out.groups == self.tok.groups and tuple(out.exact_editions) == tuple(self.tok.exact_editions) and tuple(out.variation_editions) == tuple(self.tok.variation_editions) and (getattr(self, "short", False) or out.span() == (3, 8))
        return [self.check("C01:wiring:class_follows_edition_sources", z3.BoolVal(bool(ok)), self.witness)]


def make(params):
    return {"ctx": HCtx, "yctx": HCtxYear, "actx": HCtxAnte, "wire": HWire}[params["part"]](params)


def short_derivation():
    st = setup()
    from eyecite.regexes import nonalphanum_boundaries_re

    by_regex = {e.regex: e for e in st["exts"]}
    bad = []
    n = 0
    for e in st["exts"]:
        if e.extra.get("short"):
            n += 1
            full = e.regex.replace("at (?P<page>", "(?P<page>")
            f = by_regex.get(full)
            if f is None or f.extra.get("short") or [x.short_name for x in f.extra["exact_editions"]] != [x.short_name for x in e.extra["exact_editions"]]:
                bad.append(e.regex[:80])
        else:
            if "(?P<page>" in e.regex:
                s = by_regex.get(e.regex.replace("(?P<page>", "at (?P<page>"))
                if s is None or not s.extra.get("short"):
                    bad.append("no short form for " + e.regex[:70])
    return n, bad


def check(rep):
    st = setup()
    exts = st["exts"]
    quick = rep.tier == "quick"
    rnd = random.Random(common.seed())
    idx = list(range(len(exts)))
    sample = idx  # every extractor in both tiers: (1) is a statement per reporter string across extractors
    rep.bounds.append(f"(1)(2): {len(sample)} of {len(exts)} citation extractors (all); volumes [1-9]\\d* and pages \\d+ of any length; neighbours any non-alphanumeric character or the text ends; (5): contexts [,][ ][at ] PIN T plus <= 1 arbitrary character, PIN one of {PIN_SHAPES} with arbitrary digits; (8): year contexts [, D{{1,2}}| at D] (|[ [court of 2..3 arbitrary characters] YYYY )|] [one arbitrary character]; (9): antecedent contexts [one arbitrary character + blank] Name{{2..4}} [,] blank [volume D{{1,2}} blank]")
    rep.outside += ["captures on longer trailing contexts, party names, court lookup, parentheticals, full-span ends", "'exactly one citation per written citation' under overlapping patterns", "reporter strings whose database entry has its own 'regexes' (custom templates with restricted volumes/pages) are not in (1)/(2)"]
    res, err = common.pmap(job, sample, timeout=3000, chunk=8)
    if err:
        rep.inconc("regex inclusion queries: " + err)
    again = [r["i"] for r in res if "unknown" in (r["recognise"], r["exact"])]
    if again:
        res2, err2 = common.pmap(job_retry, again, procs=6, timeout=3000, chunk=1)
        if not err2:
            by = {r["i"]: r for r in res2}
            res = [by.get(r["i"], r) for r in res]
        rep.sections["retry_pass"] = {"retried": len(again), "still_unknown": sum(1 for r in res if "unknown" in (r["recognise"], r["exact"]))}
    cnt = {"recognise": {}, "exact": {}}
    for r in res:
        for k in ("recognise", "exact"):
            v = (r[k] or "none").split(":")[0]
            cnt[k][v] = cnt[k].get(v, 0) + 1
    rep.sections["recognisability_and_reporter_group"] = {"extractors": len(res), "verdicts": cnt, "reporter_strings_covered": sum(r["strings"] for r in res)}
    rep.queries += 3 * len(res)
    shown = 0
    # (1) is a statement per reporter string: SOME extractor listing it recognises every volume/page
    covered = set()
    for r in res:
        if r["recognise"] == "unsat":
            covered.update((s, r["short"]) for s in r["ok"])
    for r in res:
        v = r["recognise"] or "none"
        if v == "unsat" or v.startswith("skipped"):
            rep.oblige()
        elif v == "sat":
            missing = [s for s in r["ok"] if (s, r["short"]) not in covered]
            if not missing:
                rep.oblige()  # every string of this (custom-template) extractor is covered by another extractor
                continue
            rep.oblige(ok=False)
            t = r["witness"][1]
            rep.replays += 1
            recognised = any(x.compiled_regex.search(t) for x in exts if set(missing) & set(x.strings))
            if not recognised:
                if shown < 6:
                    e = exts[r["i"]]
                    rep.violation(f"no extractor listing {missing[:3]} recognises {t!r} although the minimal form is recognised ({e.regex[:60]!r})", {"kind": "recognise", "regex": e.regex, "flags": e.flags, "text": t})
                shown += 1
            else:
                rep.spurious += 1
                rep.inconc(f"recognisability model {t!r} did not reproduce for strings {missing[:3]}")
        else:
            rep.oblige(ok=False)
            rep.inconc(f"extractor #{r['i']}: recognise: {v}")
    for r in res:
        k = "exact"
        v = r[k] or "none"
        if v in ("unsat", "none") or v.startswith("skipped"):
            rep.oblige()
        elif v == "sat" and r["witness"] and r["witness"][0] == k:
            rep.oblige(ok=False)
            e = exts[r["i"]]
            t = r["witness"][1]
            rep.replays += 1
            listed = t in e.strings
            probe = e.compiled_regex.search(f"1 {t} 1") or e.compiled_regex.search(f"1 {t} at 1")
            accepted = probe is not None and probe.groupdict().get("reporter") == t
            if accepted != listed:
                if shown < 6:
                    rep.violation(f"reporter group of {e.regex[:70]!r} {'accepts' if accepted else 'rejects'} {t!r}, which is {'not ' if not listed else ''}among its listed strings {list(e.strings)[:4]}", {"kind": "exact", "regex": e.regex, "flags": e.flags, "text": t})
                shown += 1
            else:
                rep.spurious += 1
                rep.inconc(f"reporter-group model {t!r} did not reproduce for {e.regex[:60]!r}")
        else:
            rep.oblige(ok=False)
            rep.inconc(f"extractor #{r['i']}: {k}: {v}")
    closure = rex.alphabet_closure()
    rep.sections["alphabet_closure"] = {"signatures_only_above_U+2FFFF": closure}
    if closure:
        rep.inconc(f"code points above U+2FFFF with a class signature not represented below: {closure[:3]}")
    n_short, bad = short_derivation()
    rep.sections["short_form_derivation"] = {"short_extractors": n_short, "mismatches": bad[:3]}
    rep.oblige(ok=not bad)
    if bad:
        rep.violation(f"short-form extractors are not derived from full extractors by inserting 'at ': {bad[:2]}", {"kind": "short_derivation", "items": bad[:5]})
    findings = []
    for name in ("POST_SHORT_CITATION_REGEX", "POST_FULL_CITATION_REGEX"):
        agg = common.explore_split("vf.harness.c01", {"part": "ctx", "pattern": name}, depth=4)
        rep.merge_explore("contexts_" + name, agg)
        findings += [(name, f) for f in agg["findings"]]
        n_ob = sum(agg["verdicts"].values())
        n_ok = sum(v for k, v in agg["verdicts"].items() if k.endswith(":valid"))
        rep.oblige(n_ok)
        rep.oblige(n_ob - n_ok, ok=False)
    agg = common.explore_split("vf.harness.c01", {"part": "yctx"}, depth=4)
    rep.merge_explore("contexts_year_court", agg)
    findings += [("yctx", f) for f in agg["findings"]]
    n_ob = sum(agg["verdicts"].values())
    n_ok = sum(v for k, v in agg["verdicts"].items() if k.endswith(":valid"))
    rep.oblige(n_ok)
    rep.oblige(n_ob - n_ok, ok=False)
    for name in ("SHORT_CITE_ANTECEDENT_REGEX", "SUPRA_ANTECEDENT_REGEX"):
        agg = common.explore_split("vf.harness.c01", {"part": "actx", "pattern": name}, depth=4)
        rep.merge_explore("contexts_antecedent_" + name, agg)
        findings += [("actx:" + name, f) for f in agg["findings"]]
        n_ob = sum(agg["verdicts"].values())
        n_ok = sum(v for k, v in agg["verdicts"].items() if k.endswith(":valid"))
        rep.oblige(n_ok)
        rep.oblige(n_ob - n_ok, ok=False)
    agg = common.explore_split("vf.harness.c01", {"part": "wire"}, depth=3, procs=1)
    rep.merge_explore("class_wiring", agg)
    findings += [("wire", f) for f in agg["findings"]]
    n_ob = sum(agg["verdicts"].values())
    n_ok = sum(v for k, v in agg["verdicts"].items() if k.endswith(":valid"))
    rep.oblige(n_ok)
    rep.oblige(n_ob - n_ok, ok=False)
    # full-span start = extracted plaintiff (symbolic add_defendant, shared with C02's harness)
    from vf.harness import c02

    fnd, W = c02.explore_parts(rep, "C01", parts=["defn", "post", "law", "journal"])
    c02.settle(rep, "C01", fnd, ["C01:"])
    rep.distinct = rep.evaluations
    import regex

    import eyecite.regexes as RX

    for name, f in findings:
        if f["verdict"] != "cex":
            rep.inconc(f"{name}/{f['clause']}: solver verdict {f['verdict']}")
            continue
        w = f["witness"]
        rep.replays += 1
        if name == "wire":
            if not replay_wire(w):
                rep.spurious += 1
                rep.inconc(f"class-wiring model {w} did not reproduce natively")
                continue
            rep.violation(f"{'_extract_shortform_citation' if w.get('short_form') else '_extract_full_citation'} with edition sources {w}: wrong class, or groups / candidate editions of the token lost", {"kind": "wire", "witness": w})
            continue
        if name.startswith("actx:") and not f["clause"].endswith("agrees_with_regex_engine"):
            got = actx_real(name[5:], w["context"])
            if got != w["want"]:
                rep.violation(f"{name[5:]} (anchored at the end, as match_on_tokens runs it) on {w['context']!r} captures {got}, written {w['want']}", {"kind": "actx", "pattern": name[5:], "context": w["context"], "want": w["want"]})
            else:
                rep.spurious += 1
                rep.inconc(f"antecedent-context model {w['context']!r} did not reproduce")
            continue
        if name == "yctx" and not f["clause"].endswith("agrees_with_regex_engine"):
            got = yctx_real(w["context"])
            if got != w["want"]:
                rep.violation(f"POST_FULL_CITATION_REGEX on {w['context']!r} captures {got}, written {w['want']}", {"kind": "yctx", "context": w["context"], "want": w["want"]})
            else:
                rep.spurious += 1
                rep.inconc(f"year-context model {w['context']!r} did not reproduce")
            continue
        if f["clause"].endswith("agrees_with_regex_engine"):
            rep.inconc(f"symbolic matcher disagrees with the regex engine on {w['context']!r} ({name}): harness error")
            continue
        real = regex.match("^(?:%s)" % getattr(RX, name), w["context"], flags=regex.X)
        want = w["prefix"] + w["context"][len(w["prefix"]) : len(w["prefix"]) + w["digits"]]
        got = real.group("pin_cite") if real else None
        if got != want:
            rep.violation(f"{name} on trailing context {w['context']!r} captures pin cite {got!r}, written {want!r}", {"kind": "ctx", "pattern": name, "context": w["context"], "want": want})
        else:
            rep.spurious += 1
            rep.inconc(f"context model {w['context']!r} did not reproduce")
    # end-to-end regression forms
    from eyecite import get_citations

    for t, want in (("See Foo v. Bar, 12 U.S. 345, 350 (1999) (per curiam). Id. at 351; Bar, supra, at 352; 12 U.S., at 353.", ["FullCaseCitation", "IdCitation", "SupraCitation", "ShortCaseCitation"]),):
        got = [type(c).__name__ for c in get_citations(t)]
        rep.replays += 1
        if got != want:
            rep.violation(f"get_citations({t!r}) -> {got}, expected {want}", {"kind": "text", "text": t})
    rex.save_cache()
    return rep.finish(
        explanation="(1)(2) regular-language inclusions decided by z3's regex solver per extractor (volumes/pages of any length; reporter group == listed strings); (3) structural derivation of short forms; (4) symbolic execution of _extract_full_citation over edition-source subsets; (5) the real trailing-context patterns run by a priority-exact symbolic matcher on documented pin-cite contexts with arbitrary digits and one arbitrary trailing character, validated against the real regex engine on every path.",
        technique="regular-language inclusion by SMT (z3 seq/re) per extractor + symbolic regex matching over bounded symbolic character arrays",
    )


def replay_wire(w):
    """the wiring clause on CPython: real token, real _extract_full_citation / _extract_shortform_citation."""
    import logging

    import eyecite.find as F
    import eyecite.models as M

    mk = lambda s_, i: M.Edition(M.Reporter(f"R{s_}{i}", "n", "state", s_), f"E{s_}{i}", None, None)
    ex, va = w["exact_sources"], w["variation_sources"]
    tok = M.CitationToken("1 X 2", 3, 8, groups={"volume": "1", "reporter": "X", "page": "2"}, exact_editions=tuple(mk(s_, 0) for s_ in ex), variation_editions=tuple(mk(s_, 1) for s_ in va), short=bool(w.get("short_form")))
    srcs = ex or va
    logging.disable(logging.WARNING)
    try:
        out = (F._extract_shortform_citation if w.get("short_form") else F._extract_full_citation)([tok], 0)
    except ValueError:
        return bool(srcs)
    except Exception:
        return True
    finally:
        logging.disable(logging.NOTSET)
    want = M.ShortCaseCitation if w.get("short_form") else M.FullCaseCitation if "reporters" in srcs else M.FullLawCitation if "laws" in srcs else M.FullJournalCitation if "journals" in srcs else None
    ok = want is not None and type(out) is want and out.groups == tok.groups and tuple(out.exact_editions) == tuple(tok.exact_editions) and tuple(out.variation_editions) == tuple(tok.variation_editions)
    return not ok


def actx_real(name, text):
    import regex

    import eyecite.regexes as RX

    r = regex.search("(?:%s)$" % getattr(RX, name), text, flags=regex.X)
    if r is None:
        return None
    sp_ = lambda g: None if r.span(g) == (-1, -1) else list(r.span(g))
    return {"antecedent": sp_("antecedent") if r.start() == r.start("antecedent") else ["match starts at", r.start()], "volume": sp_("volume") if "volume" in r.groupdict() else None, "end": r.end()}


def yctx_real(text):
    """what the real engine captures on a year-parenthesis context, in the shape of HCtxYear's `want`."""
    import regex

    import eyecite.regexes as RX

    r = regex.match("^(?:%s)" % RX.POST_FULL_CITATION_REGEX, text, flags=regex.X)
    if r is None:
        return None
    sp_ = lambda g: None if r.span(g) == (-1, -1) or r.span(g)[0] == r.span(g)[1] else list(r.span(g))
    if sp_("extra") or sp_("parenthetical"):
        return {"unexpected": {"extra": r["extra"], "parenthetical": r["parenthetical"]}}
    return {"year": sp_("year"), "court": sp_("court"), "pin_cite": sp_("pin_cite"), "end": r.end()}


def replay_file(path):
    import json

    r = json.load(open(path))["replay"]
    if r["kind"] == "recognise":
        ok = re.compile(r["regex"], r["flags"]).search(r["text"]) is not None
        print(ok)
        return 0 if ok else 1
    if r["kind"] == "wire":
        bad = replay_wire(r["witness"])
        print("violated" if bad else "holds")
        return 1 if bad else 0
    if r["kind"] == "actx":
        got = actx_real(r["pattern"], r["context"])
        print(got, r["want"])
        return 0 if got == r["want"] else 1
    if r["kind"] == "yctx":
        got = yctx_real(r["context"])
        print(got, r["want"])
        return 0 if got == r["want"] else 1
    if r["kind"] == "ctx":
        import regex

        import eyecite.regexes as RX

        m = regex.match("^(?:%s)" % getattr(RX, r["pattern"]), r["context"], flags=regex.X)
        got = m.group("pin_cite") if m else None
        print(got, r["want"])
        return 0 if got == r["want"] else 1
    return 1
