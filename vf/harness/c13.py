"""C13 — the Aho-Corasick pre-filter is lossless.

Per extractor e of the installed list, decided by z3's regex solver for texts of
any length:   L(search e)  ⊆  { t : some filter word registered for e occurs in g(t) }
where the registered words are read from the live automata of a real
AhocorasickTokenizer, and g is the text transformation that the real
get_extractors() applies before querying each automaton (recorded by running the
real method on every code point with recording automata).
"""
import multiprocessing as mp
import os
import random
import re
import time

import z3

from vf import common, rex

_S = {}


class _Rec:
    """stands in for an ahocorasick.Automaton inside the real get_extractors()."""

    def __init__(self):
        self.seen = None
        self.methods = set()

    def __len__(self):
        return 1

    def iter(self, text):
        self.seen = text
        self.methods.add("iter")
        return iter(())

    def iter_long(self, text):
        # longest non-overlapping matches only: NOT "every added word that occurs" - recorded, see check()
        self.seen = text
        self.methods.add("iter_long")
        return iter(())


def record_maps(T):
    """g_cs, g_ci : per-character images of the text handed to each automaton."""
    t = T.AhocorasickTokenizer(extractors=[])
    cs, ci = _Rec(), _Rec()
    t.case_sensitive_filter = cs
    t.case_insensitive_filter = ci
    t.unfiltered_extractors = set()
    t.extractor_positions = {}
    img_cs, img_ci = {}, {}
    for cp in range(0x110000):
        c = chr(cp)
        cs.seen = ci.seen = None
        t.get_extractors(c)
        if cs.seen is None or ci.seen is None:
            raise RuntimeError("get_extractors did not query both automata")
        if cs.seen != c:
            img_cs[cp] = cs.seen
        if ci.seen != c:
            img_ci[cp] = ci.seen
    # homomorphism spot check: g(ab) == g(a) g(b) on seeded pairs drawn from the moved characters + ASCII
    rnd = random.Random(common.seed())
    pool = sorted(set(list(img_ci)[:4000]) | set(range(32, 127)) | set(img_cs))
    for _ in range(3000):
        a, b, c = (chr(rnd.choice(pool)) for _ in range(3))
        s = a + b + c
        t.get_extractors(s)
        want_ci = "".join(img_ci.get(ord(x), x) for x in s)
        want_cs = "".join(img_cs.get(ord(x), x) for x in s)
        if ci.seen != want_ci or cs.seen != want_cs:
            # context-sensitive mapping (e.g. final sigma): only harmless if no ASCII is involved
            if any(ord(ch) < 128 for ch in ci.seen + want_ci) and [ch for ch in ci.seen if ord(ch) < 128] != [ch for ch in want_ci if ord(ch) < 128]:
                raise RuntimeError(f"text transformation is not per-character on {s!r}")
    QUERY_METHODS.update(cs.methods | ci.methods)
    return img_cs, img_ci


QUERY_METHODS = set()


def setup():
    if _S:
        return _S
    import eyecite.tokenizers as T

    tok = T.AhocorasickTokenizer()
    exts = list(tok.extractors)
    pos = {id(e): i for i, e in enumerate(exts)}
    words = {"cs": {}, "ci": {}}
    foreign = []
    for name, attr in (("cs", "case_sensitive_filter"), ("ci", "case_insensitive_filter")):
        aut = getattr(tok, attr)
        if len(aut):
            for word, es in aut.items():
                for e in es:
                    if id(e) not in pos:
                        foreign.append((name, word))
                        continue
                    words[name].setdefault(pos[id(e)], []).append(word)
    unf = {pos[id(e)] for e in tok.unfiltered_extractors if id(e) in pos}
    foreign += [("unfiltered", repr(e.regex)[:40]) for e in tok.unfiltered_extractors if id(e) not in pos]
    img_cs, img_ci = record_maps(T)
    import eyecite.models as M

    _S.update(M=M, T=T, tok=tok, exts=exts, words=words, unf=unf, img_cs=img_cs, img_ci=img_ci, foreign=foreign)
    return _S


def word_lang(name, w):
    st = setup()
    img = st["img_cs"] if name == "cs" else st["img_ci"]
    rel = {cp: im for cp, im in img.items() if im == "" or any(ch in w for ch in im)}
    # characters of w that are themselves moved away must not count as themselves
    for ch in set(w):
        if ord(ch) in img and ord(ch) not in rel:
            rel[ord(ch)] = img[ord(ch)]
    return rex.preimage_body(w, rel)


def all_words(i):
    st = setup()
    return [(name, w) for name in ("cs", "ci") for w in sorted(st["words"][name].get(i, []))]


def union(ts):
    return ts[0] if len(ts) == 1 else z3.Union(*ts)


def transform(name, text):
    st = setup()
    img = st["img_cs"] if name == "cs" else st["img_ci"]
    return "".join(img.get(ord(c), c) for c in text)


def decide(R, words, budget_ms):
    """L(search R) ⊆ Has(words)?  -> (verdict, witness)"""
    if not words:
        return rex.solve_in(rex.search_lang(R), timeout_ms=budget_ms, seed=common.seed())
    # ONE complement of ONE union between two Σ*: the encoding z3 decides fastest
    full = z3.Full(rex.RS)
    has = z3.Concat(full, union([word_lang(n, w) for n, w in words]), full)
    return rex.solve_in(z3.Intersect(rex.search_lang(R), z3.Complement(has)), timeout_ms=budget_ms, seed=common.seed())


BUDGET = 1  # multiplier of the per-query time limits (raised for the retry pass)


def job_retry(i):
    global BUDGET
    BUDGET = 8
    try:
        return job(i)
    finally:
        BUDGET = 1


def job(i):
    st = setup()
    e = st["exts"][i]
    t0 = time.time()
    out = {"i": i, "verdict": None, "witness": None, "s": 0.0, "nwords": 0, "queries": 0, "split": 0}
    if i in st["unf"]:
        out["verdict"] = "unfiltered"
        return out
    try:
        p = rex.parse(e.regex, e.flags)
        if not rex.anchors_ok(p):
            out["verdict"] = "unsupported:anchor placement"
            return out
        words = all_words(i)
        out["nwords"] = len(words)
        v, w = decide(rex.tr(p, e.flags), words, 20000 * BUDGET)
        out["queries"] += 1
        if v == "unknown" and len(words) > 1:
            # guided decomposition: L = union of branch variants; for each variant take a member,
            # see which registered words it contains, and prove the variant is covered by those
            # words alone (sufficient: Has(subset) ⊆ Has(all)); fall back to all words.
            variants = rex.branch_variants(p)
            out["split"] = len(variants)
            v = "unsat"
            for var in variants:
                Rv = rex.tr(var, e.flags)
                mv, mw = rex.solve_in(rex.search_lang(Rv), timeout_ms=20000 * BUDGET, seed=common.seed())
                out["queries"] += 1
                if mv == "unsat":
                    continue
                vv = "unknown"
                if mv == "sat":
                    member = rex.strip_sentinels(mw)
                    cand = [(n, x) for n, x in words if x in transform(n, member)]
                    if cand:
                        vv, ww = decide(Rv, cand, 30000 * BUDGET)
                        out["queries"] += 1
                if vv != "unsat":
                    vv, ww = decide(Rv, words, 60000 * BUDGET)
                    out["queries"] += 1
                if vv == "sat":
                    v, w = "sat", ww
                    break
                if vv == "unknown":
                    v = "unknown"
        out["verdict"] = v
        if v == "sat":
            out["witness"] = rex.strip_sentinels(w)
    except rex.Unsupported as ex:
        out["verdict"] = f"unsupported:{ex}"
    out["s"] = time.time() - t0
    return out


def member_job(args):
    """translator validation: z3 membership vs the real compiled regex on a concrete text."""
    i, text = args
    st = setup()
    e = st["exts"][i]
    real = e.compiled_regex.search(text) is not None
    R = rex.translate(e.regex, e.flags)
    sol = z3.Solver()
    sol.set("timeout", 60000)
    sol.add(z3.InRe(z3.StringVal(rex.BOS + text + rex.EOS), rex.search_lang(R)))
    r = str(sol.check())
    return i, text, real, r


def example_texts(e):
    out = []
    for s in list(e.strings)[:3]:
        out += [f"See 1 {s} 2.", f"1 {s} at 2", f"{s}", f" {s} ", f"1 {s}, 2 (1999)", f"12 {s} § 3"]
    return out


def replay(i, text):
    """does the real filtered tokenizer lose a match of extractor i on `text`?"""
    st = setup()
    e = st["exts"][i]
    m = e.compiled_regex.search(text)
    selected = any(x is e for x in st["tok"].get_extractors(text))
    T = st["T"]
    ref = T.Tokenizer(extractors=[e]).tokenize(text)
    aho = T.AhocorasickTokenizer(extractors=[e]).tokenize(text)
    same = [str(x) for x in ref[0]] == [str(x) for x in aho[0]] and [(j, type(t).__name__, t.start, t.end) for j, t in ref[1]] == [(j, type(t).__name__, t.start, t.end) for j, t in aho[1]]
    return {"regex_matches": m is not None, "selected_by_filter": selected, "token_streams_equal_on_sublist": same}


# ---------------------------------------------------------------- sub-lists, symbolically (E2)
WORDS = ["wa", "wb", "wawb"]  # two unrelated filter words and one that contains both


class AbsAutomaton:
    """pyahocorasick contract: iter(text) yields (end_index, value) for every added word that occurs in text."""

    def __init__(self, h):
        self.h, self.words = h, []

    def add_word(self, w, value):
        for i, (x, v) in enumerate(self.words):
            if x == w:
                self.words[i] = (w, value)
                return False
        self.words.append((w, value))
        return True

    def make_automaton(self):
        pass

    def __len__(self):
        return len(self.words)

    def iter(self, text):
        if not self.words:
            raise AttributeError("Not an Aho-Corasick automaton yet")
        out = []
        for w, v in self.words:
            if self.h.occurs(w, text):
                out.append((0, v))
        return out

    def iter_long(self, text):
        """longest non-overlapping matches only: an occurrence of a word is not reported when it is covered by
        (or overlaps) a reported occurrence of another word - possible exactly when some other added word that
        occurs contains it or can overlap it."""
        if not self.words:
            raise AttributeError("Not an Aho-Corasick automaton yet")
        import z3

        def related(a, b):
            return a != b and (a in b or any(a[-k:] == b[:k] or b[-k:] == a[:k] for k in range(1, min(len(a), len(b)))))

        occ = [(w, v) for w, v in self.words if self.h.occurs(w, text)]
        out = []
        for w, v in occ:
            if any(related(w, w2) for w2, _ in occ):
                b = z3.Bool(f"shadowed_{len(self.h.shadow)}")
                self.h.shadow.append((w, b))
                if self.h.eng.choose([b, z3.Not(b)]) == 0:
                    continue
            out.append((0, v))
        return out


class AbsText:
    """the text, known only up to the transformations applied to it (translate / lower)."""

    def __init__(self, ops=()):
        self.ops = tuple(ops)

    def lower(self):
        return AbsText(self.ops + ("lower",))

    def translate(self, table):
        return AbsText(self.ops + ("translate",))


class HSub(common.Harness):
    """AhocorasickTokenizer.__post_init__ + get_extractors on an arbitrary list of <= N abstract extractors."""

    def __init__(self, params):
        super().__init__(params)
        import ahocorasick

        import eyecite.tokenizers as T

        self.T = T
        self.N = params["N"]
        self.interp.stubs[ahocorasick.Automaton] = lambda *a, **k: AbsAutomaton(self)

    def occurs(self, word, text):
        import z3

        key = (word, text.ops)
        if key not in self.occ:
            b = z3.Bool(f"occurs_{len(self.occ)}")
            self.occ[key] = b
            # a word that occurs brings its sub-words with it
            for (w2, ops2), b2 in self.occ.items():
                if ops2 == text.ops and w2 != word:
                    if w2 in word:
                        self.eng.add(z3.Implies(b, b2))
                    if word in w2:
                        self.eng.add(z3.Implies(b2, b))
        b = self.occ[key]
        return self.eng.choose([b, z3.Not(b)]) == 0

    def run(self):
        import re

        import z3

        from vf.harness.c15 import AbsExtractor

        eng, T = self.eng, self.T
        self.occ = {}
        self.shadow = []
        n = eng.choose([z3.Int("n") == k for k in range(self.N + 1)])
        exts = []
        self.cfg = []
        for i in range(n):
            kind = eng.choose([z3.Int(f"kind{i}") == k for k in range(3)])  # no strings / case-sensitive / case-insensitive
            word = WORDS[eng.choose([z3.Int(f"word{i}") == k for k in range(len(WORDS))])] if kind else None
            # a case-insensitive extractor registers its strings lower-cased; give it an upper-case string
            strings = [] if kind == 0 else [word if kind == 1 else word.upper()]
            exts.append(AbsExtractor(f"E{i}", strings, 0 if kind < 2 else int(re.I), None))
            self.cfg.append((kind, word))
        tk = self.interp.instantiate(T.AhocorasickTokenizer, (), {"extractors": exts})
        got = self.interp.call(T.AhocorasickTokenizer.get_extractors, (tk, AbsText()), {})
        return exts, list(got)

    def witness(self, m):
        import z3

        return {"extractors": self.cfg, "occurrences": {f"{w}@{'/'.join(ops) or 'text'}": (bool(z3.is_true(m.eval(b, model_completion=True))) if m is not None else None) for (w, ops), b in self.occ.items()}}

    def describe(self, kind, out):
        return self.witness(self.eng.path_model())

    def judge(self, kind, out):
        import z3

        if kind == "exc":
            return [self.check("C13:sublist:no_exception:" + type(out).__name__, False, self.witness)]
        exts, got = out
        # specification: in list order, the extractors without strings plus those one of whose registered words
        # occurs in the (transformed) text.  Which transformation chain the code applies is its own business:
        # a case-insensitive word is looked up lower-cased in SOME lower-casing transformation of the text.
        want = []
        for e, (kind_, word) in zip(exts, self.cfg):
            if kind_ == 0:
                want.append(e)
                continue
            hit = False
            for (w, ops), b in self.occ.items():
                if w == word and ((kind_ == 1 and ops == ()) or (kind_ == 2 and "lower" in ops)):
                    if self.eng.implied(b):
                        hit = True
            if hit:
                want.append(e)
        ok = len(want) == len(got) and all(a is b for a, b in zip(want, got))
        return [self.check("C13:sublist:selected_extractors_are_exactly_those_whose_word_occurs_in_list_order", z3.BoolVal(ok), self.witness)]


def make(params):
    return HSub(params)


REGRESSION_TEXTS = ["Foo, ſupra, at 5", "İd. at 5", "ıd. at 5", "ſee 1 U.S. 1", "Foo K. Bar, cert. denied", "1 U.S. 1", "Id. at 5", "See Foo v. Bar, 1 F.2d 2, 3 (1999); id. at 4; Foo, supra, at 5."]


def check(rep):
    st = setup()
    T = st["T"]
    exts = st["exts"]
    n = len(exts)
    rep.bounds.append(f"all {n} extractors of the installed list; texts of any length over code points U+0000..U+2FFFF (z3's character sort), extended to all of Unicode by the class-signature argument recorded under 'alphabet_closure'")
    rep.outside.append("custom extractors that are not in the installed list; the matching behaviour of pyahocorasick itself (contract: iter(text) reports every added word that occurs in text)")
    rep.stubs.append("ahocorasick.Automaton: iter(text) yields the value of every added word occurring in text (contract); the words are read from the live automata")
    rep.assumptions.append("str.lower()/translate act per character wherever ASCII output is involved (spot-checked on 3000 seeded triples each run)")
    rep.sections["automaton_query_methods"] = sorted(QUERY_METHODS)
    if QUERY_METHODS - {"iter"}:
        # the per-extractor inclusion theorem needs "every added word that occurs is reported"
        rep.inconc(f"the pre-filter queries its automata through {sorted(QUERY_METHODS - {'iter'})}, which does not report every occurring word: the inclusion queries alone do not imply losslessness (see the symbolic sub-list clause)")
    if st["foreign"]:
        rep.inconc(f"automata reference extractors that are not in tokenizer.extractors: {st['foreign'][:3]}")
    idx = list(range(n))
    t0 = time.time()
    res, err = common.pmap(job, idx, timeout=3000, chunk=8)
    if err:
        rep.inconc("regex inclusion queries: " + err)
    # a loaded machine must not turn into 'unknown': second pass for those, fewer processes, 8x the time limits
    again = [r["i"] for r in res if r["verdict"] == "unknown"]
    if again:
        res2, err2 = common.pmap(job_retry, again, procs=6, timeout=3000, chunk=1)
        if not err2:
            by = {r["i"]: r for r in res2}
            res = [by.get(r["i"], r) for r in res]
        rep.sections["retry_pass"] = {"retried": len(again), "still_unknown": sum(1 for r in res if r["verdict"] == "unknown")}
    # translator validation on concrete texts (seeded sample in quick, all in thorough)
    rnd = random.Random(common.seed())
    sample = idx if rep.tier == "thorough" else rnd.sample(idx, min(400, n))
    margs = []
    for i in sample:
        for tx in example_texts(exts[i])[:2]:
            margs.append((i, tx))
        margs.append((i, "zzz 1 qq 2"))
    mres, err = common.pmap(member_job, margs, timeout=3000, chunk=16)
    if err:
        rep.inconc("translator validation: " + err)
    counts = {}
    solver_s = 0.0
    for r in res:
        counts[r["verdict"].split(":")[0]] = counts.get(r["verdict"].split(":")[0], 0) + 1
        solver_s += r["s"]
    rep.queries += len(res) + len(mres)
    rep.solver_s += solver_s
    disagreements = [(i, tx, real, r) for i, tx, real, r in mres if (r == "sat") != real]
    rep.sections["translator_validation"] = {"concrete_texts": len(mres), "disagreements": len(disagreements), "members": sum(1 for x in mres if x[2])}
    if disagreements:
        rep.inconc(f"translator disagrees with the real regex engine on {disagreements[:2]}")
    # vacuity: the pattern language is witnessed non-empty by a concrete text the real regex matches
    nonempty = 0
    for i in idx:
        e = exts[i]
        if any(e.compiled_regex.search(tx) for tx in example_texts(e)):
            nonempty += 1
    rep.sections["inclusion"] = {"extractors": n, "verdicts": counts, "cpu_s": round(solver_s, 1), "wall_s": round(time.time() - t0, 1), "patterns_with_concrete_member": nonempty}
    closure = rex.alphabet_closure()
    rep.sections["alphabet_closure"] = {"signatures_only_above_U+2FFFF": closure}
    if closure:
        rep.inconc(f"code points above U+2FFFF with a class signature not represented below: {closure[:3]}")
    seen_w = 0
    for r in res:
        v = r["verdict"]
        if v in ("unsat", "unfiltered"):
            rep.oblige()
            continue
        rep.oblige(ok=False)
        if v == "sat":
            rep.replays += 1
            rp = replay(r["i"], r["witness"])
            if rp["regex_matches"] and not rp["selected_by_filter"]:
                if seen_w < 12:
                    rep.violation(
                        f"extractor #{r['i']} ({exts[r['i']].regex[:60]!r}, strings {list(exts[r['i']].strings)[:4]}) matches {r['witness']!r} but the pre-filter does not select it ({rp})",
                        {"kind": "filter", "extractor": r["i"], "text": r["witness"]},
                    )
                seen_w += 1
            else:
                rep.spurious += 1
                rep.inconc(f"model {r['witness']!r} for extractor #{r['i']} did not reproduce: {rp}")
        else:
            rep.inconc(f"extractor #{r['i']}: {v}")
    rep.sample({"extractor": 0, "regex": exts[0].regex[:80], "words": st["words"]["cs"].get(0), "query": "L(search regex) ∩ ¬(Σ* words Σ*) = ∅", "verdict": res[0]["verdict"] if res else None})
    last = n - 5
    rep.sample({"extractor": last, "regex": exts[last].regex[:80], "words_ci": st["words"]["ci"].get(last), "moved_characters_ci_filter": len(st["img_ci"]), "verdict": res[last]["verdict"] if res else None})
    # sub-lists: the filter of a tokenizer built on a sub-list only ever selects members of that sub-list
    rnd = random.Random(common.seed() + 1)
    sublists = [exts[-5:], exts[:3], [exts[i] for i in sorted(rnd.sample(idx, 40))], [exts[-4]], []]
    for L in sublists:
        tk = T.AhocorasickTokenizer(extractors=list(L))
        ids = {id(e) for e in L}
        bad = [e for e in tk.unfiltered_extractors if id(e) not in ids]
        for attr in ("case_sensitive_filter", "case_insensitive_filter"):
            aut = getattr(tk, attr)
            if len(aut):
                for word, es in aut.items():
                    bad += [e for e in es if id(e) not in ids]
        rep.oblige(ok=not bad)
        if bad:
            text = "See 1 U.S. 1; id. at 2"
            b = T.Tokenizer(extractors=list(L)).tokenize(text)
            try:
                a = tk.tokenize(text)
            except Exception as ex:  # the reference tokenizer did not raise
                a = ([f"<raised {type(ex).__name__}>"], [])
            if [str(x) for x in a[0]] != [str(x) for x in b[0]] or len(a[1]) != len(b[1]):
                rep.violation(f"AhocorasickTokenizer(extractors=<{len(L)} extractors>) selects extractors outside its list: token stream differs from Tokenizer on {text!r}", {"kind": "sublist", "n": len(L), "text": text})
            else:
                rep.inconc("filter references extractors outside the sub-list but the probe text did not expose a difference")
    # the same for arbitrary lists, symbolically
    agg = common.explore_split("vf.harness.c13", {"N": 2 if rep.tier == "quick" else 3}, depth=4)
    rep.merge_explore("sublists_symbolic", agg)
    n_ob = sum(agg["verdicts"].values())
    n_ok = sum(v for k, v in agg["verdicts"].items() if k.endswith(":valid"))
    rep.oblige(n_ok)
    rep.oblige(n_ob - n_ok, ok=False)
    rep.bounds.append(f"sub-lists: every list of <= {2 if rep.tier == 'quick' else 3} abstract extractors (no strings / case-sensitive / case-insensitive; filter words wa, wb and wawb, which contains both), every occurrence pattern")
    for f in agg["findings"]:
        if f["verdict"] != "cex":
            rep.inconc(f"{f['clause']}: solver verdict {f['verdict']}")
            continue
        w = f["witness"]
        rep.replays += 1
        hit = replay_sublist(w)
        if hit:
            rep.violation(f"AhocorasickTokenizer and Tokenizer differ on {hit[0]!r} for an extractor list of shape {w['extractors']}: {hit[1]} vs {hit[2]}", {"kind": "sublist_model", "witness": w})
            break
        rep.spurious += 1
        rep.inconc(f"sub-list model did not reproduce: {w}")
    # regression witnesses: filtered vs reference tokenizer on the shipped list
    ref = T.Tokenizer()
    for tx in REGRESSION_TEXTS:
        a = st["tok"].tokenize(tx)
        b = ref.tokenize(tx)
        rep.replays += 1
        if [str(x) for x in a[0]] != [str(x) for x in b[0]] or [(type(t).__name__, t.start, t.end) for _, t in a[1]] != [(type(t).__name__, t.start, t.end) for _, t in b[1]]:
            rep.violation(f"default tokenizer and reference tokenizer differ on {tx!r}", {"kind": "text", "text": tx})
    rep.distinct = sum(1 for r in res if r["verdict"] in ("unsat", "sat"))
    rep.evaluations = len(res) + len(mres)
    rex.save_cache()
    return rep.finish(
        explanation=(
            f"For each of the {n} extractors the inclusion L(search pattern) ⊆ {{texts containing a registered filter word after the tokenizer's own text transformation}} "
            "is decided by z3's regular-expression solver as one emptiness query (no bound on text length); patterns, flags, registered words and the transformation are read from live objects of the imported repo; "
            "sat answers are replayed on the real regex/tokenizers."
        ),
        technique="regular-language inclusion by SMT (z3 seq/re theory), one query per extractor; translator validated against the real regex engine on concrete texts",
    )


def replay_sublist(w):
    """real extractors of the model's shape, run through both tokenizers on probe texts; returns
    (text, filtered, reference) for the first difference, else None."""
    import re as _re

    st = setup()
    T = st["T"]
    real = []
    for j, (kind_, word) in enumerate(w["extractors"]):
        # an optional private prefix lets an extractor's match start before (and so take precedence over)
        # another extractor's match that covers its filter word
        rx_ = "((?:q%d)?%s)" % (j, word) if word else "(zz%d)" % j
        real.append(st["M"].TokenExtractor(rx_, st["M"].IdToken.from_match, flags=_re.I if kind_ == 2 else 0, strings=[] if kind_ == 0 else [word if kind_ == 1 else word.upper()]))
    texts = ["wa wb", "WA", "wb", "", "zz0 zz1 wa", "Wb wa", "wawb", "WAWB", "wa wawb", "wb wawb"] + [f"q{j}{x}" for j in range(len(w["extractors"])) for x in ("wawb", "WAWB", "wa", "wb")]
    for t in texts:
        try:
            a = T.AhocorasickTokenizer(extractors=list(real)).tokenize(t)
            a = ([str(x) for x in a[0]], [(type(x).__name__, x.start, x.end) for _, x in a[1]])
        except Exception as ex:
            a = ("raised " + type(ex).__name__,)
        b = T.Tokenizer(extractors=list(real)).tokenize(t)
        b = ([str(x) for x in b[0]], [(type(x).__name__, x.start, x.end) for _, x in b[1]])
        if a != b:
            return (t, a, b)
    return None


def replay_file(path):
    import json

    d = json.load(open(path))["replay"]
    st = setup()
    if d["kind"] == "filter":
        rp = replay(d["extractor"], d["text"])
        print(rp)
        return 1 if rp["regex_matches"] and not rp["selected_by_filter"] else 0
    if d["kind"] == "sublist_model":
        hit = replay_sublist(d["witness"])
        print(hit)
        return 1 if hit else 0
    T = st["T"]
    a = st["tok"].tokenize(d["text"])
    b = T.Tokenizer().tokenize(d["text"])
    bad = [str(x) for x in a[0]] != [str(x) for x in b[0]]
    print(d["text"], "differs" if bad else "same")
    return 1 if bad else 0
