#!/usr/bin/env python3
"""Confirm every seeded change independently in a scratch clone: the patch applies, the unedited suite
still passes with it, and the demonstration fails with the change and passes without it.
Writes the outcome into seeded/<id>/meta.json under "confirmed".  usage: tools/verify_seeds.py [prefix ...]"""
import json, os, subprocess, sys, time

ROOT = os.path.dirname(os.path.dirname(os.path.abspath(__file__)))
CL = "/tmp/vseed"
if not os.path.isdir(CL):
    subprocess.run(["git", "clone", "-q", "/repo", CL], check=True)
subprocess.run(["git", "-C", CL, "fetch", "-q", "/repo", "main"], check=False)
subprocess.run(["git", "-C", CL, "reset", "-q", "--hard", "FETCH_HEAD"], check=False)
names = sorted(n for n in os.listdir(os.path.join(ROOT, "seeded")) if os.path.isfile(os.path.join(ROOT, "seeded", n, "patch.diff")))
if sys.argv[1:]:
    names = [n for n in names if any(n.startswith(p) for p in sys.argv[1:])]
env = dict(os.environ, PYTHONPATH=CL)


def run(cmd, **kw):
    return subprocess.run(cmd, capture_output=True, text=True, cwd=CL, env=env, **kw)


for n in names:
    d = os.path.join(ROOT, "seeded", n)
    meta_p = os.path.join(d, "meta.json")
    meta = json.load(open(meta_p)) if os.path.exists(meta_p) else {}
    demo = os.path.join(d, "demo.py")
    res = {"head": run(["git", "rev-parse", "--short", "HEAD"]).stdout.strip(), "at": time.strftime("%Y-%m-%d %H:%M")}
    res["demo_without_change"] = run(["/venv/bin/python", demo]).returncode if os.path.exists(demo) else None
    ap = run(["git", "apply", os.path.join(d, "patch.diff")])
    res["applies"] = ap.returncode == 0
    if res["applies"]:
        t = run(["/venv/bin/python", "-m", "pytest", "-q", "-p", "no:cacheprovider", "-x", "-n", "8"])
        last = [l for l in t.stdout.splitlines() if "passed" in l or "failed" in l]
        res["suite_with_change"] = last[-1].strip() if last else t.stdout[-200:]
        res["demo_with_change"] = run(["/venv/bin/python", demo]).returncode if os.path.exists(demo) else None
        run(["git", "checkout", "--", "."])
    meta["confirmed"] = res
    json.dump(meta, open(meta_p, "w"), indent=1)
    print(n, res, flush=True)
