#!/bin/bash
# tools/with_patch.sh <patch.diff | -R <commit>> -- <command...>
# applies a patch (or the reverse of a commit) to /repo's working tree, runs the command, restores the tree.
set -u
if [ "$1" = "-R" ]; then
  git -C /repo show "$2" > /tmp/.wp_patch.$$ ; APPLY="git -C /repo apply -R /tmp/.wp_patch.$$"; shift 2
else
  APPLY="git -C /repo apply $(realpath "$1")"; shift
fi
[ "$1" = "--" ] && shift
if [ -n "$(git -C /repo status --porcelain -- eyecite)" ]; then echo "repo dirty"; exit 3; fi
$APPLY || { echo "patch does not apply"; exit 3; }
"$@"; rc=$?
git -C /repo checkout -- . ; rm -f /tmp/.wp_patch.$$
exit $rc
