"""./check entry point."""
import argparse
import importlib
import os
import sys
import traceback

from vf import common, symex


def main():
    ap = argparse.ArgumentParser()
    ap.add_argument("pid")
    ap.add_argument("--tier", default=os.environ.get("VERIF_TIER", "quick"), choices=["quick", "thorough"])
    ap.add_argument("--replay", default=None)
    a = ap.parse_args()
    pid = a.pid.upper()
    try:
        mod = importlib.import_module(f"vf.harness.{pid.lower()}")
    except ModuleNotFoundError:
        print(f"no check for {pid}")
        return common.EXIT_INCONCLUSIVE
    if a.replay:
        return mod.replay_file(a.replay)
    try:
        rep = common.Report(pid, a.tier)
        return mod.check(rep)
    except (Exception, symex.Infeasible, symex.Cut):
        traceback.print_exc()
        print(f"INCONCLUSIVE property={pid}: harness error")
        return common.EXIT_INCONCLUSIVE


if __name__ == "__main__":
    sys.exit(main())
