"""C14 — the Hyperscan tokenizer (partial).

Decided here on the real source:
  (a) HyperscanTokenizer.extract_tokens' byte->character offset table: a text of <= N characters with
      symbolic UTF-8 widths, <= H arbitrary byte-offset hits: hits whose two ends are character
      boundaries are translated to the right character offsets (and yield a token iff the Python re-match
      confirms them), all others are dropped, nothing raises;
  (b) the patterns handed to hyperscan (captured by interpreting hyperscan_db with a recording stub module)
      have the same Python-level language as the extractors' own patterns (E1 equivalence for every
      pattern that convert_regex changes), flags map re.I <-> CASELESS and always carry SOM_LEFTMOST;
  (c) hyperscan_db's cache control flow under a loader-fault stub: whatever loadb does that hyperscan
      documents (return a database, raise any subclass of hyperscan.error, or TypeError for the old
      signature), the property returns a database and does not raise.
NOT decided: which byte ranges Hyperscan itself reports (its matching is C code).  The known finding
(a citation next to a multi-byte character is missed) is replayed and reported as KNOWN-FINDING.
"""
import os
import sys
import tempfile
import types

import z3

from vf import common, rex, symex
from vf.symex import SInt, TStr, lift_int, mval


# ---------------------------------------------------------------- (a) offset table
class UBytes:
    def __init__(self, h, a=None, b=None):
        self.h, self.a, self.b = h, a, b

    def __getitem__(self, sl):
        if not isinstance(sl, slice) or sl.step is not None:
            raise symex.NotEncodable("bytes index")
        a = lift_int(sl.start) if sl.start is not None else z3.IntVal(0)
        b = lift_int(sl.stop) if sl.stop is not None else self.h.nbytes
        return UBytes(self.h, a, b)

    def decode(self, enc="utf-8", errors="strict", *a):
        h = self.h
        i = h.boundary_index(self.a)
        j = h.boundary_index(self.b)
        if i is None or j is None:
            if errors == "strict":
                raise UnicodeDecodeError("utf-8", b"\xff", 0, 1, "invalid start byte")
            if errors in ("replace", "ignore"):
                return LossyText(h, end_aligned=j is not None, replace=errors == "replace")
            raise symex.NotEncodable(f"bytes.decode(errors={errors!r})")
        # aligned at both ends: the characters themselves (any 3-byte character may be U+FFFD in the text)
        return AlignedText(h, i.as_long(), j.as_long())


class AlignedText:
    def __init__(self, h, i, j):
        self.h, self.i, self.j = h, i, j

    def sym_len(self):
        return max(self.j - self.i, 0)

    def __len__(self):
        return max(self.j - self.i, 0)

    def endswith(self, suf, *a):
        if suf != "\ufffd":
            raise symex.NotEncodable(f"endswith({suf!r}) on decoded text")
        if self.j <= self.i:
            return False
        k = self.j - 1
        b = z3.Bool(f"char{k}_is_fffd")
        self.h.eng.add(z3.Implies(b, self.h.widths[k] == 3))
        return self.h.eng.choose([b, z3.Not(b)]) == 0

    def __bool__(self):
        return self.j > self.i


class LossyText:
    """result of decoding a byte slice that cuts through a character with errors='replace'/'ignore'."""

    def __init__(self, h, end_aligned, replace):
        self.h, self.end_aligned, self.replace = h, end_aligned, replace
        self.n = h.eng.fresh_int("lossy_len")
        h.eng.add(self.n >= (1 if replace else 0))

    def sym_len(self):
        return SInt(self.n)

    def endswith(self, suf, *a):
        if suf == "\ufffd":
            if self.replace and not self.end_aligned:
                return True
            b = self.h.eng.fresh_bool("lossy_ends_fffd")
            return self.h.eng.choose([b, z3.Not(b)]) == 0
        raise symex.NotEncodable(f"endswith({suf!r}) on a lossily decoded text")

    def __bool__(self):
        return bool(symex.mkbool(self.n > 0))


class UText:
    """the input text: N characters, each with a symbolic UTF-8 width."""

    def __init__(self, h):
        self.h = h

    def encode(self, enc="utf-8", *a):
        return UBytes(self.h)

    def __getitem__(self, sl):
        return TStr.base(self.h.nc).getitem(sl)


class FakeMatch:
    def __init__(self, a, b, text):
        self.a, self.b, self.text = a, b, text

    def span(self, k=0):
        return (SInt(self.a), SInt(self.b))

    def __getitem__(self, k):
        return self.text.getitem(slice(SInt(self.a), SInt(self.b)))

    def groupdict(self):
        return {}


class HOffsets(common.Harness):
    def __init__(self, params):
        super().__init__(params)
        import eyecite.models as M
        import eyecite.tokenizers as T

        self.M, self.T = M, T
        self.N, self.Hn = params["N"], params["H"]
        from vf import absval

        absval.install(self.interp)

    def boundary_index(self, x):
        """character index of byte offset x, or None when x is inside a character (forks)."""
        conds = [x == b for b in self.bounds] + [z3.And(*[x != b for b in self.bounds])]
        k = self.eng.choose(conds)
        return None if k == len(self.bounds) else z3.IntVal(k)

    def run(self):
        eng, M, T = self.eng, self.M, self.T
        n = eng.choose([z3.Int("nchars") == k for k in range(self.N + 1)])
        self.nc = z3.IntVal(n)
        ws = [z3.Int(f"w{i}") for i in range(n)]
        for w in ws:
            eng.add(w >= 1, w <= 4)
        self.widths = ws
        self.bounds = [z3.IntVal(0)]
        for w in ws:
            self.bounds.append(z3.simplify(self.bounds[-1] + w))
        self.nbytes = self.bounds[-1]
        nh = eng.choose([z3.Int("nhits") == k for k in range(self.Hn + 1)])
        self.hits = []
        for j in range(nh):
            s, e = z3.Int(f"hs{j}"), z3.Int(f"he{j}")
            eng.add(0 <= s, s <= e, e <= self.nbytes)
            self.hits.append((s, e))
        self.rematch = []
        harness = self

        class FakeRegex:
            def match(self_, text):
                j = len(harness.rematch)
                b = eng.fresh_bool(f"rematch{j}")
                if eng.choose([b, z3.Not(b)]) == 1:
                    harness.rematch.append(None)
                    return None
                ln = text.length().e
                a, c = eng.fresh_int("g1s"), eng.fresh_int("g1e")
                eng.add(0 <= a, a <= c, c <= ln)
                harness.rematch.append((a, c))
                return FakeMatch(a, c, text)

        ext = M.TokenExtractor("(x)", M.IdToken.from_match)
        ext._compiled_regex = FakeRegex()

        class FakeDB:
            def scan(self_, data, match_event_handler=None, **kw):
                for s, e in harness.hits:
                    match_event_handler(0, SInt(s), SInt(e), 0, None)

        tk = T.HyperscanTokenizer(extractors=[ext])
        tk._db = FakeDB()
        toks = self.interp.call(T.HyperscanTokenizer.extract_tokens, (tk, UText(self)), {})
        return list(toks)

    def witness(self, m):
        return {"widths": [mval(m, w) for w in self.widths], "hits": [(mval(m, s), mval(m, e)) for s, e in self.hits], "rematch": [None if r is None else (mval(m, r[0]), mval(m, r[1])) for r in self.rematch]}

    def describe(self, kind, out):
        m = self.eng.path_model()
        return self.witness(m) if m is not None else {}

    def cidx(self, x):
        """character index of a byte offset as a z3 term, and the alignment condition."""
        aligned = z3.Or(*[x == b for b in self.bounds])
        idx = z3.IntVal(-1)
        for k, b in enumerate(self.bounds):
            idx = z3.If(x == b, k, idx)
        return aligned, idx

    def judge(self, kind, out):
        if kind == "exc":
            return [self.check("C14:offsets:no_exception:" + type(out).__name__, False, self.witness)]
        toks = out
        # specification: walk the hits; the re-match answers were consumed in order by the aligned hits
        conds = []
        ti = 0
        ri = 0
        ok_count = True
        for s, e in self.hits:
            a1, i1 = self.cidx(s)
            a2, i2 = self.cidx(e)
            al = self.eng.implied(z3.And(a1, a2))
            un = self.eng.implied(z3.Not(z3.And(a1, a2)))
            if not al and not un:
                return [self.check("C14:offsets:alignment_decided_on_path", z3.BoolVal(False), self.witness)]
            if un:
                continue
            if ri >= len(self.rematch):
                ok_count = False
                break
            r = self.rematch[ri]
            ri += 1
            if r is None:
                continue
            if ti >= len(toks):
                ok_count = False
                break
            t = toks[ti]
            ti += 1
            conds.append(z3.And(lift_int(t.start) == i1 + r[0], lift_int(t.end) == i1 + r[1], lift_int(t.start) >= 0, lift_int(t.end) <= self.nc, i1 + r[1] <= i2))
        if ti != len(toks):
            ok_count = False
        return [
            self.check("C14:offsets:aligned_confirmed_hits_yield_exactly_one_token_others_none", z3.BoolVal(ok_count), self.witness),
            self.check("C14:offsets:token_offsets_are_character_offsets_of_the_hit", z3.And(*conds) if conds else z3.BoolVal(True), self.witness),
        ]


# ---------------------------------------------------------------- (c) cache loader control flow
class HsError(Exception):
    pass


def fake_hyperscan(h):
    """a stand-in for the hyperscan module: records compile() arguments, loadb behaves as the harness says."""
    import hyperscan as real

    mod = types.ModuleType("hyperscan")
    for k in dir(real):
        if k.startswith("HS_"):
            setattr(mod, k, getattr(real, k))
    mod.error = real.error
    names = [n for n in dir(real) if isinstance(getattr(real, n), type) and issubclass(getattr(real, n), real.error)]
    for n in names:
        setattr(mod, n, getattr(real, n))
    h.error_classes = [getattr(real, n) for n in names if n != "error"]

    class Database:
        def __init__(self_, *a, **k):
            self_.compiled = None
            self_.loaded = False

        def compile(self_, expressions=None, flags=None, **k):
            self_.compiled = (expressions, flags)
            h.compiled.append((expressions, flags))

        def __bool__(self_):
            return True

    def loadb(data, mode=None, *a, **k):
        h.loadb_calls.append(mode)
        act = h.loader_action(len(h.loadb_calls))
        if act == "ok":
            db = Database()
            db.loaded = True
            return db
        if act == "typeerror":
            raise TypeError("loadb() got an unexpected keyword argument 'mode'")
        raise act("simulated loader failure")

    def dumpb(db):
        return b"dump"

    class Scratch:
        def __init__(self_, db=None, *a, **k):
            if h.scratch_fails:
                raise AttributeError("scratch")

    mod.Database, mod.loadb, mod.dumpb, mod.Scratch = Database, loadb, dumpb, Scratch
    return mod


class FakePath:
    def __init__(self, h, name=""):
        self.h, self.name = h, name

    def mkdir(self, *a, **k):
        pass

    def __truediv__(self, o):
        self.h.cache_names.append(str(o))
        return FakePath(self.h, self.name + "/" + str(o))

    def exists(self):
        return self.h.cache_exists

    def read_bytes(self):
        return b"cached"

    def write_bytes(self, b):
        self.h.written.append(b)

    def __bool__(self):
        return True


class HCache(common.Harness):
    def __init__(self, params):
        super().__init__(params)
        import eyecite.models as M
        import eyecite.tokenizers as T

        self.M, self.T = M, T
        from pathlib import Path

        self.interp.stubs[Path] = lambda p: FakePath(self, str(p))

    def loader_action(self, call_no):
        eng = self.eng
        n = len(self.error_classes)
        # the installed hyperscan accepts loadb(bytes, mode=...): the TypeError fallback for hyperscan < 0.5
        # is not exercised (it cannot be replayed with the installed library; stated as outside)
        k = eng.choose([z3.Int(f"loader{call_no}") == j for j in range(n + 1)])
        if k == 0:
            return "ok"
        self.trace.append(self.error_classes[k - 1].__name__)
        return self.error_classes[k - 1]

    def run(self):
        eng, M, T = self.eng, self.M, self.T
        self.compiled, self.loadb_calls, self.written, self.trace = [], [], [], []
        self.cache_exists = eng.choose([z3.Bool("cache_exists"), z3.Not(z3.Bool("cache_exists"))]) == 0
        self.use_cache = eng.choose([z3.Bool("cache_dir"), z3.Not(z3.Bool("cache_dir"))]) == 0
        self.scratch_fails = eng.choose([z3.Bool("scratch_fails"), z3.Not(z3.Bool("scratch_fails"))]) == 0
        ext = [M.TokenExtractor("(a{,3})§?", M.IdToken.from_match, flags=0), M.TokenExtractor("(b)", M.IdToken.from_match, flags=2)]
        tk = T.HyperscanTokenizer(extractors=ext, cache_dir="/nonexistent/cache" if self.use_cache else None)
        saved = sys.modules.get("hyperscan")
        sys.modules["hyperscan"] = fake_hyperscan(self)
        self.cache_names = []
        self.fingerprints = None
        try:
            db = self.interp.call(T.HyperscanTokenizer.hyperscan_db.fget, (tk,), {})
            if self.use_cache and not self.cache_exists:
                # cache key: the same patterns with other flags, or other patterns with the same flags, must not
                # share a cache file
                names = list(self.cache_names)
                for variant in ([M.TokenExtractor("(a{,3})§?", M.IdToken.from_match, flags=2), M.TokenExtractor("(b)", M.IdToken.from_match, flags=2)], [M.TokenExtractor("(a{,3})§?", M.IdToken.from_match, flags=0), M.TokenExtractor("(c)", M.IdToken.from_match, flags=2)]):
                    self.cache_names = []
                    self.interp.call(T.HyperscanTokenizer.hyperscan_db.fget, (T.HyperscanTokenizer(extractors=variant, cache_dir="/nonexistent/cache"),), {})
                    names += self.cache_names
                self.fingerprints = names
        finally:
            if saved is not None:
                sys.modules["hyperscan"] = saved
            else:
                sys.modules.pop("hyperscan", None)
        return db

    def witness(self, m):
        return {"cache_dir": self.use_cache, "cache_exists": self.cache_exists, "loader_failures": list(self.trace), "loadb_calls": len(self.loadb_calls), "scratch_fails": self.scratch_fails}

    def describe(self, kind, out):
        return self.witness(None)

    def judge(self, kind, out):
        if kind == "exc":
            return [self.check("C14:cache:no_exception:" + type(out).__name__, False, self.witness)]
        usable = out is not None and (getattr(out, "loaded", False) or getattr(out, "compiled", None) is not None)
        fs = [self.check("C14:cache:returns_a_loaded_or_freshly_compiled_database", z3.BoolVal(bool(usable)), self.witness)]
        if self.fingerprints is not None:
            ok = len(self.fingerprints) == 3 and len(set(self.fingerprints)) == 3
            fs.append(self.check("C14:cache:fingerprint_distinguishes_patterns_and_flags", z3.BoolVal(ok), lambda m: {"fingerprints": self.fingerprints, **self.witness(m)}))
        return fs


def make(params):
    return HOffsets(params) if params["part"] == "offsets" else HCache(params)


# ---------------------------------------------------------------- (b) converted patterns
def captured_expressions():
    """interpret hyperscan_db on the real extractor list with a recording module: what is compiled?"""
    import eyecite.tokenizers as T

    class Rec:
        compiled, loadb_calls, written, trace = [], [], [], []
        cache_exists, scratch_fails = False, False
        error_classes = []

        def loader_action(self, n):
            return "ok"

    rec = Rec()
    eng = symex.Engine()
    symex.ENGINE = eng
    it = symex.Interp(eng)
    tk = T.HyperscanTokenizer(cache_dir=None)
    saved = sys.modules.get("hyperscan")
    sys.modules["hyperscan"] = fake_hyperscan(rec)
    try:
        def run():
            return it.call(T.HyperscanTokenizer.hyperscan_db.fget, (tk,), {})

        outs = list(eng.explore(run))
    finally:
        if saved is not None:
            sys.modules["hyperscan"] = saved
        else:
            sys.modules.pop("hyperscan", None)
    if len(outs) != 1 or outs[0][0] != "ok" or len(rec.compiled) != 1:
        raise symex.NotEncodable(f"hyperscan_db did not compile exactly once under the recording stub: {outs[:1]}")
    return tk.extractors, rec.compiled[0], dict(it.encoded)


def equiv_job_retry(args):
    return equiv_job(args, budget=8)


def equiv_job(args, budget=1):
    a, b, flags = args
    try:
        Ra, Rb = rex.translate(a, flags), rex.translate(b, flags)
    except rex.Unsupported as ex:
        return ("unsupported:" + str(ex), None)
    for x, y in ((Ra, Rb), (Rb, Ra)):
        v, w = rex.solve_in(z3.Intersect(rex.search_lang(x), z3.Complement(rex.search_lang(y))), timeout_ms=60000 * budget, seed=common.seed())
        if v != "unsat":
            return (v, rex.z3_unescape(w) if w else None)
    return ("unsat", None)


# ---------------------------------------------------------------- concrete parts
KNOWN_TEXT = "“1 U.S. 1”"
IN_DOMAIN = [
    "See Foo v. Bar, 1 U.S. 1, 2 (1999); id. at 3.",
    "Adarand, supra, at 5; 42 U.S.C. § 1983 (West 1999).",
    "before\n1 F.2d 2 (2d Cir. 1999)\nafter",
    "x 1 U.S. at 5 y",
    "Résumé of Peña v. Adarand, 515 U.S. 200, 240 (1995) — and more",
]


def token_sig(toks):
    return sorted((type(t).__name__, t.start, t.end, str(t), tuple(sorted((k, v) for k, v in t.groups.items() if v is not None))) for t in toks)


def real_tokenizers(cache_dir):
    import eyecite.tokenizers as T

    return T.Tokenizer(), T.HyperscanTokenizer(cache_dir=cache_dir)


def check(rep):
    import multiprocessing as mp

    quick = rep.tier == "quick"
    N, Hn = (3, 2) if quick else (4, 3)
    rep.bounds.append(f"offset table: texts of <= {N} characters with symbolic UTF-8 widths (1..4 bytes), <= {Hn} arbitrary hits; cache loader: every combination of cache present/absent, loader outcome (ok / TypeError / each subclass of hyperscan.error), Scratch failing or not; pattern conversion: all installed extractors")
    rep.outside += ["which byte ranges Hyperscan reports (its matching engine is C code): the clause 'reports every candidate the reference reports' is NOT decided; the known multi-byte-neighbour miss is replayed only", "a cache file that deserialises without error into a wrong database", "the TypeError fallback for hyperscan < 0.5 (old loadb signature)"]
    rep.stubs += ["hyperscan.Database.scan: arbitrary (index, start, end) byte triples within the encoded text", "str.encode/bytes.decode: UTF-8, a byte slice decodes iff both ends are character boundaries", "hyperscan.loadb/Scratch/dumpb/Database.compile: recording/fault-injecting stand-ins", "pathlib.Path: cache file exists or not, reads return bytes"]
    findings = []
    agg = common.explore_split("vf.harness.c14", {"part": "offsets", "N": N, "H": Hn}, depth=4)
    rep.merge_explore("offset_table", agg)
    findings += [("offsets", f) for f in agg["findings"]]
    tot = dict(agg["verdicts"])
    agg = common.explore_split("vf.harness.c14", {"part": "cache"}, depth=3, procs=1)
    rep.merge_explore("cache_loader", agg)
    findings += [("cache", f) for f in agg["findings"]]
    for k, v in agg["verdicts"].items():
        tot[k] = tot.get(k, 0) + v
    n_ob = sum(tot.values())
    n_ok = sum(v for k, v in tot.items() if k.endswith(":valid"))
    rep.oblige(n_ok)
    rep.oblige(n_ob - n_ok, ok=False)
    # (b) converted patterns
    try:
        exts, (expressions, flags), enc = captured_expressions()
        rep.functions.update(enc)
        import re

        import hyperscan

        jobs, same, flag_bad = [], 0, []
        for e, x, f in zip(exts, expressions, flags):
            want = hyperscan.HS_FLAG_SOM_LEFTMOST | (hyperscan.HS_FLAG_CASELESS if e.flags & re.I else 0)
            if f != want or (e.flags & ~re.I):
                flag_bad.append((e.regex[:40], e.flags, f))
            conv = x.decode("utf8") if isinstance(x, bytes) else x
            if conv == e.regex:
                same += 1
            else:
                jobs.append((e.regex, conv, e.flags))
        uniq = sorted(set(jobs))
        res, perr = common.pmap(equiv_job, uniq, timeout=3000, chunk=4)
        if perr:
            rep.inconc("pattern equivalence queries: " + perr)
            res = [("unknown:" + perr, None)] * len(uniq)
        # a loaded machine must not turn into 'unknown': second pass for those, fewer processes, 8x the limit
        again = [k for k, r in enumerate(res) if r[0] == "unknown"]
        if again and not perr:
            res2, perr2 = common.pmap(equiv_job_retry, [uniq[k] for k in again], procs=6, timeout=3000, chunk=1)
            if not perr2:
                res = list(res)
                for k, r in zip(again, res2):
                    res[k] = r
        bad = [(j, r) for j, r in zip(uniq, res) if r[0] != "unsat"]
        rep.sections["pattern_conversion"] = {"extractors": len(exts), "identical_after_conversion": same, "changed": len(jobs), "distinct_changed": len(uniq), "equivalence_verdicts": {k: sum(1 for r in res if r[0] == k) for k in {r[0] for r in res}}, "flag_mismatches": len(flag_bad)}
        rep.queries += 2 * len(uniq)
        rep.oblige(len(exts) - len(bad) - len(flag_bad))
        rep.oblige(len(bad) + len(flag_bad), ok=False)
        if len(expressions) != len(exts):
            rep.violation(f"hyperscan database compiled from {len(expressions)} expressions for {len(exts)} extractors", {"kind": "conversion", "detail": "count"})
        for (a, b, fl), (v, w) in bad[:3]:
            if v == "sat":
                t = rex.strip_sentinels(w)
                ra, rb = re.search(a, t, fl) is not None, re.search(b, t, fl) is not None
                rep.replays += 1
                if ra != rb:
                    rep.violation(f"convert_regex changed the language of {a[:70]!r}: text {t!r} is matched by {'the original only' if ra else 'the converted pattern only'}", {"kind": "conversion", "original": a, "converted": b, "text": t})
                else:
                    rep.inconc(f"pattern equivalence model {t!r} did not reproduce for {a[:60]!r}")
            else:
                rep.inconc(f"pattern equivalence {v} for {a[:60]!r}")
        for fb in flag_bad[:2]:
            rep.violation(f"flags not carried over to hyperscan for {fb}", {"kind": "conversion", "detail": "flags", "item": list(map(str, fb))})
    except symex.NotEncodable as ex:
        rep.inconc(f"pattern conversion: {ex}")
    # (e) byte-level reading of the patterns: utf8(L_python(group 1)) inside L_bytes(group 1), per extractor
    try:
        from vf.harness import c14b

        c14b.fold(rep)
    except symex.NotEncodable as ex:
        rep.inconc(f"byte-level inclusion: {ex}")
    rep.distinct = rep.evaluations
    # replay counter-models
    seen = set()
    for part, f in findings:
        if f["verdict"] != "cex":
            rep.inconc(f"{part}/{f['clause']}: solver verdict {f['verdict']}")
            continue
        rep.replays += 1
        if part == "offsets":
            bad = replay_offsets(f["witness"])
            if bad:
                if tuple(bad) not in seen:
                    seen.add(tuple(bad))
                    rep.violation(f"HyperscanTokenizer.extract_tokens on a text with UTF-8 widths {f['witness']['widths']} and scan hits {f['witness']['hits']}: {bad}", {"kind": "offsets", "witness": f["witness"]})
            else:
                rep.spurious += 1
                rep.inconc(f"offset-table model did not reproduce: {f['witness']}")
        else:
            bad = replay_cache(f["witness"])
            if bad:
                if ("cache", bad) not in seen:
                    seen.add(("cache", bad))
                    rep.violation(f"HyperscanTokenizer with cache state {f['witness']}: {bad}", {"kind": "cache", "witness": f["witness"]})
            else:
                rep.spurious += 1
                rep.inconc(f"cache-loader model did not reproduce with a real cache file: {f['witness']}")
    # concrete: known finding, in-domain differential, damaged cache files
    cache = tempfile.mkdtemp(prefix="vf_hs_")
    try:
        ref, hs = real_tokenizers(cache)
        for t in IN_DOMAIN:
            rep.replays += 1
            a, b = token_sig(ref.extract_tokens(t)), token_sig(hs.extract_tokens(t))
            missing = [x for x in a if x not in b]
            if missing:
                rep.violation(f"HyperscanTokenizer misses candidates the reference tokenizer reports on {t!r}: {missing[:2]}", {"kind": "text", "text": t})
        known = [k for k in common.known_findings("C14") if k.get("status") == "known"]
        a, b = token_sig(ref.extract_tokens(KNOWN_TEXT)), token_sig(hs.extract_tokens(KNOWN_TEXT))
        if [x for x in a if x not in b]:
            if known:
                rep.known_lines.append(f"KNOWN-FINDING: property=C14 {known[0]['what'][:230]}")
            else:
                rep.violation(f"HyperscanTokenizer misses candidates on {KNOWN_TEXT!r}", {"kind": "text", "text": KNOWN_TEXT})
        # damaged cache files (fixed finding 3f213ac and friends) - on a small extractor list, so that the
        # recompilation after each damaged file takes milliseconds
        import eyecite.tokenizers as T

        small = T.EXTRACTORS[-5:] + T.EXTRACTORS[:20]
        cache2 = os.path.join(cache, "small")
        os.mkdir(cache2)
        base = token_sig(T.HyperscanTokenizer(extractors=small, cache_dir=cache2).extract_tokens(IN_DOMAIN[0]))
        files = os.listdir(cache2)
        if files:
            p = os.path.join(cache2, files[0])
            blob = open(p, "rb").read()
            variants = {"empty": b"", "truncated_10": blob[:10], "truncated_half": blob[: len(blob) // 2], "minus_one": blob[:-1], "version_word": blob[:4] + bytes([blob[4] ^ 0xFF]) + blob[5:], "magic": bytes([blob[0] ^ 0xFF]) + blob[1:], "garbage": b"\x00\x01garbage" * 50}
            for name, data in variants.items():
                rep.replays += 1
                open(p, "wb").write(data)
                try:
                    got = token_sig(T.HyperscanTokenizer(extractors=small, cache_dir=cache2).extract_tokens(IN_DOMAIN[0]))
                    if got != base:
                        rep.violation(f"HyperscanTokenizer with a damaged cache file ({name}) produces different tokens", {"kind": "cachefile", "variant": name})
                except Exception as ex:
                    rep.violation(f"HyperscanTokenizer with a damaged cache file ({name}) raised {type(ex).__name__}: {ex}", {"kind": "cachefile", "variant": name})
    finally:
        import shutil

        shutil.rmtree(cache, ignore_errors=True)
    rex.save_cache()
    return rep.finish(
        explanation="(a) symbolic execution of the real extract_tokens offset-table code over texts with symbolic UTF-8 widths and arbitrary byte hits; (b) z3 regex equivalence between every extractor pattern and what hyperscan_db actually compiles (captured by interpreting the property with a recording module); (c) symbolic execution of hyperscan_db's cache control flow under every documented loader outcome.  Hyperscan's own matching is not decided.",
        technique="symbolic execution of the Python source + z3 (LIA) per path; regex equivalence by z3's regex solver; C library behaviour by contract stubs",
    )


def replay_offsets(w, fffd=False):
    """real extract_tokens with a fake database reporting the model's hits on a real text of those widths."""
    import eyecite.models as M
    import eyecite.tokenizers as T

    chars = {1: "a", 2: "é", 3: "\ufffd" if fffd else "“", 4: "😀"}
    text = "".join(chars[x] for x in w["widths"])
    rem = list(w["rematch"])

    class FakeRegex:
        def match(self, s):
            # answers recorded in the model; a hit the model never re-matched is confirmed in full
            r = rem.pop(0) if rem else (0, len(s))
            if r is None:
                return None
            import re

            return re.compile("(?s).{%d}(.{%d})" % (r[0], r[1] - r[0])).match(s)

    ext = M.TokenExtractor("(x)", M.IdToken.from_match)
    ext._compiled_regex = FakeRegex()

    class FakeDB:
        def scan(self, data, match_event_handler=None, **k):
            for s, e in w["hits"]:
                match_event_handler(0, s, e, 0, None)

    tk = T.HyperscanTokenizer(extractors=[ext])
    tk._db = FakeDB()
    try:
        toks = list(tk.extract_tokens(text))
    except Exception as ex:
        return ["C14:offsets:no_exception:" + type(ex).__name__]
    bounds = [0]
    for x in w["widths"]:
        bounds.append(bounds[-1] + x)
    want = []
    rem2 = list(w["rematch"])
    for s, e in w["hits"]:
        if s in bounds and e in bounds:
            r = rem2.pop(0) if rem2 else (0, bounds.index(e) - bounds.index(s))
            if r is not None:
                cs = bounds.index(s)
                want.append((cs + r[0], cs + r[1]))
    got = [(t.start, t.end) for t in toks]
    if got != want:
        return [f"C14:offsets: tokens {got}, expected {want}"]
    if not fffd:
        # the same widths with U+FFFD as the 3-byte characters (a character like any other)
        if 3 in w["widths"]:
            return replay_offsets(w, fffd=True)
    return []


def replay_fingerprint():
    """two tokenizers that differ only in flags share one cache directory: the second must not load the first's database."""
    import re

    import eyecite.models as M
    import eyecite.tokenizers as T

    d = tempfile.mkdtemp(prefix="vf_hsf_")
    try:
        a = [M.TokenExtractor(r"(id\.)", M.IdToken.from_match, flags=0)]
        b = [M.TokenExtractor(r"(id\.)", M.IdToken.from_match, flags=re.I)]
        text = "Id. and id."
        list(T.HyperscanTokenizer(extractors=a, cache_dir=d).extract_tokens(text))
        with_cache = token_sig(T.HyperscanTokenizer(extractors=b, cache_dir=d).extract_tokens(text))
        without = token_sig(T.HyperscanTokenizer(extractors=b).extract_tokens(text))
        if with_cache != without:
            return f"tokens with a cache directory written for other flags {with_cache} differ from tokens without cache {without}"
    finally:
        import shutil

        shutil.rmtree(d, ignore_errors=True)
    return None


def replay_cache(w):
    if "fingerprints" in w:
        return replay_fingerprint()
    """a real cache file whose version word is flipped makes loadb raise a non-Invalid hyperscan error."""
    import eyecite.models as M
    import eyecite.tokenizers as T

    if not w["cache_dir"] or not w["cache_exists"] or not w["loader_failures"]:
        return None
    d = tempfile.mkdtemp(prefix="vf_hsc_")
    try:
        ext = [M.TokenExtractor("(ab+c)", M.IdToken.from_match)]
        T.HyperscanTokenizer(extractors=ext, cache_dir=d).hyperscan_db
        for fn in os.listdir(d):
            p = os.path.join(d, fn)
            blob = open(p, "rb").read()
            for name, data in (("version_word", blob[:4] + bytes([blob[4] ^ 0xFF]) + blob[5:]), ("empty", b""), ("truncated", blob[:10])):
                open(p, "wb").write(data)
                try:
                    T.HyperscanTokenizer(extractors=ext, cache_dir=d).hyperscan_db
                except Exception as ex:
                    return f"cache file damaged ({name}): hyperscan_db raised {type(ex).__name__}"
    finally:
        import shutil

        shutil.rmtree(d, ignore_errors=True)
    return None


def fold_into_c04(rep):
    for part, params in (("hyperscan_offsets", {"part": "offsets", "N": 3, "H": 2}), ("hyperscan_cache", {"part": "cache"})):
        agg = common.explore_split("vf.harness.c14", params, depth=4, procs=None if part == "hyperscan_offsets" else 1)
        rep.merge_explore(part, agg)
        rep.oblige(agg["paths"] - agg["exc_paths"])
        rep.oblige(agg["exc_paths"], ok=False)
        for f in agg["findings"]:
            if "no_exception" not in f["clause"] or f["verdict"] != "cex":
                continue
            rep.replays += 1
            bad = replay_offsets(f["witness"]) if part == "hyperscan_offsets" else replay_cache(f["witness"])
            if bad:
                rep.violation(f"{part}: {f['witness']}: {bad}", {"kind": part, "witness": f["witness"]})
                break


def replay_file(path):
    import json

    r = json.load(open(path))["replay"]
    if r["kind"] == "offsets":
        bad = replay_offsets(r["witness"])
    elif r["kind"] == "cache":
        bad = replay_cache(r["witness"])
    elif r["kind"] in ("byte_level", "text"):
        ref, hs = real_tokenizers(None)
        a, b = token_sig(ref.extract_tokens(r["text"])), token_sig(hs.extract_tokens(r["text"]))
        bad = [x for x in a if x not in b]
    else:
        bad = ["see the check output"]
    print(bad)
    return 1 if bad else 0
