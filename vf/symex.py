"""Prototype: path-exhaustive symbolic interpreter for a Python subset (probe only)."""
import ast
import builtins
import collections
import dataclasses
import functools
import inspect
import sys
import textwrap
import time
import types

import z3


class NotEncodable(Exception):
    pass


class BoundExceeded(Exception):
    pass


class Infeasible(BaseException):
    pass


ENGINE = None


# ---------------------------------------------------------------- values
def lift_int(x):
    if isinstance(x, SInt):
        return x.e
    if isinstance(x, bool):
        return z3.IntVal(int(x))
    if isinstance(x, int):
        return z3.IntVal(x)
    if isinstance(x, z3.ArithRef):
        return x
    raise NotEncodable(f"int from {type(x)}")


class SBool:
    __slots__ = ("e",)

    def __init__(self, e):
        self.e = z3.simplify(e)

    def __bool__(self):
        if z3.is_true(self.e):
            return True
        if z3.is_false(self.e):
            return False
        return ENGINE.branch(self.e)

    def __repr__(self):
        return f"SBool({self.e})"


def mkbool(e):
    e = z3.simplify(e)
    if z3.is_true(e):
        return True
    if z3.is_false(e):
        return False
    return SBool(e)


class SInt:
    __slots__ = ("e",)

    def __init__(self, e):
        self.e = e

    def __repr__(self):
        return f"SInt({self.e})"

    def _bin(self, o, f):
        try:
            return SInt(f(self.e, lift_int(o)))
        except NotEncodable:
            return NotImplemented

    def __add__(self, o):
        return self._bin(o, lambda a, b: a + b)

    def __radd__(self, o):
        return self._bin(o, lambda a, b: b + a)

    def __sub__(self, o):
        return self._bin(o, lambda a, b: a - b)

    def __rsub__(self, o):
        return self._bin(o, lambda a, b: b - a)

    def __neg__(self):
        return SInt(-self.e)

    def __mul__(self, o):
        return self._bin(o, lambda a, b: a * b)

    __rmul__ = __mul__

    def _cmp(self, o, f):
        try:
            return mkbool(f(self.e, lift_int(o)))
        except NotEncodable:
            return NotImplemented

    def __lt__(self, o):
        return self._cmp(o, lambda a, b: a < b)

    def __le__(self, o):
        return self._cmp(o, lambda a, b: a <= b)

    def __gt__(self, o):
        return self._cmp(o, lambda a, b: a > b)

    def __ge__(self, o):
        return self._cmp(o, lambda a, b: a >= b)

    def __eq__(self, o):
        if o is None or isinstance(o, (str, SStr)):
            return False
        return self._cmp(o, lambda a, b: a == b)

    def __ne__(self, o):
        if o is None or isinstance(o, (str, SStr)):
            return True
        return self._cmp(o, lambda a, b: a != b)

    def __hash__(self):
        raise NotEncodable("hash of symbolic int")

    def __bool__(self):
        return bool(mkbool(self.e != 0))

    def __index__(self):
        # concretise by forking over feasible values (bounded)
        return ENGINE.concretize_int(self.e)


def lift_str(x):
    if isinstance(x, SStr):
        return x.e
    if isinstance(x, str):
        return z3.StringVal(x)
    raise NotEncodable(f"str from {type(x)}")


def ite_int(c, a, b):
    return z3.If(c, a, b)


class SStr:
    """symbolic str (z3 String)."""

    __slots__ = ("e",)

    def __init__(self, e):
        self.e = e

    def __repr__(self):
        return f"SStr({self.e})"

    def length(self):
        return SInt(z3.Length(self.e))

    def __add__(self, o):
        return SStr(z3.Concat(self.e, lift_str(o)))

    def __radd__(self, o):
        return SStr(z3.Concat(lift_str(o), self.e))

    def __eq__(self, o):
        if isinstance(o, (str, SStr)):
            return mkbool(self.e == lift_str(o))
        return False

    def __ne__(self, o):
        if isinstance(o, (str, SStr)):
            return mkbool(self.e != lift_str(o))
        return True

    def __hash__(self):
        raise NotEncodable("hash of symbolic str")

    def __bool__(self):
        return bool(mkbool(z3.Length(self.e) > 0))

    def getitem(self, idx):
        n = z3.Length(self.e)
        if isinstance(idx, slice):
            if idx.step is not None:
                raise NotEncodable("slice step")

            def norm(v, default):
                if v is None:
                    return default
                v = lift_int(v)
                v = z3.If(v < 0, v + n, v)
                return z3.If(v < 0, 0, z3.If(v > n, n, v))

            a = norm(idx.start, z3.IntVal(0))
            b = norm(idx.stop, n)
            ln = z3.If(b > a, b - a, 0)
            return SStr(z3.SubString(self.e, a, ln))
        i = lift_int(idx)
        i2 = z3.If(i < 0, i + n, i)
        if not bool(mkbool(z3.And(i2 >= 0, i2 < n))):
            raise IndexError("string index out of range")
        return SStr(z3.SubString(self.e, i2, 1))

    # methods used by the code under analysis
    def endswith(self, s):
        return mkbool(z3.SuffixOf(lift_str(s), self.e))

    def startswith(self, s):
        return mkbool(z3.PrefixOf(lift_str(s), self.e))

    def contains(self, s):
        return mkbool(z3.Contains(self.e, lift_str(s)))



class TStr:
    """string built from slices of ONE symbolic base text plus literal pieces.

    atoms: ('lit', str) | ('sub', lo, hi) with 0 <= lo <= hi <= n as z3 ints.
    Content is never inspected through z3's string theory; tests on content
    (== literal, endswith, strip) are *facts*: fresh booleans/ints tied to the
    slice by length axioms (see Facts)."""

    __slots__ = ("atoms", "n")

    def __init__(self, atoms, n):
        out = []
        for a in atoms:
            if a[0] == "lit":
                if a[1] == "":
                    continue
                if out and out[-1][0] == "lit":
                    out[-1] = ("lit", out[-1][1] + a[1])
                    continue
            else:
                if z3.is_int_value(a[1]) and z3.is_int_value(a[2]) and a[1].as_long() == a[2].as_long():
                    continue
                if out and out[-1][0] == "sub" and z3.eq(out[-1][2], a[1]):
                    out[-1] = ("sub", out[-1][1], a[2])
                    continue
            out.append(a)
        self.atoms = out
        self.n = n

    @classmethod
    def base(cls, n):
        return cls([("sub", z3.IntVal(0), n)], n)

    @classmethod
    def sub(cls, lo, hi, n):
        return cls([("sub", z3.simplify(lift_int(lo)), z3.simplify(lift_int(hi)))], n)

    def __repr__(self):
        return f"TStr({self.atoms})"

    def key(self):
        return tuple(a[1] if a[0] == "lit" else (str(a[1]), str(a[2])) for a in self.atoms)

    def length(self):
        tot = z3.IntVal(0)
        for a in self.atoms:
            tot = tot + (len(a[1]) if a[0] == "lit" else a[2] - a[1])
        return SInt(z3.simplify(tot))

    def __add__(self, o):
        if isinstance(o, str):
            return TStr(self.atoms + [("lit", o)], self.n)
        if isinstance(o, TStr):
            return TStr(self.atoms + o.atoms, self.n)
        if isinstance(o, collections.UserString) and isinstance(o.data, (str, TStr)):
            return self + o.data
        return NotImplemented

    def __radd__(self, o):
        if isinstance(o, str):
            return TStr([("lit", o)] + self.atoms, self.n)
        return NotImplemented

    def __bool__(self):
        return bool(mkbool(self.length().e > 0))

    __hash__ = None

    def __eq__(self, o):
        if o is self:
            return True
        if isinstance(o, str):
            if not self.atoms:
                return o == ""
            if all(a[0] == "lit" for a in self.atoms):
                return "".join(a[1] for a in self.atoms) == o
            return ENGINE.facts.eq_lit(self, o)
        if isinstance(o, TStr):
            if self.key() == o.key():
                return True
            raise NotEncodable("content comparison of two symbolic texts")
        return False

    def __ne__(self, o):
        r = self.__eq__(o)
        return mkbool(z3.Not(r.e)) if isinstance(r, SBool) else (not r)

    def single(self):
        """(lo, hi) if this is exactly one slice of the base text."""
        if len(self.atoms) == 1 and self.atoms[0][0] == "sub":
            return self.atoms[0][1], self.atoms[0][2]
        return None

    def getitem(self, idx):
        if not self.atoms:
            if isinstance(idx, slice):
                return self
            raise IndexError("string index out of range")
        sg = self.single()
        if sg is None:
            raise NotEncodable(f"slice of composite text {self}")
        lo, hi = sg
        n = hi - lo
        if not isinstance(idx, slice) or idx.step is not None:
            raise NotEncodable("text index")

        def norm(v, default):
            if v is None:
                return default
            v = z3.simplify(lift_int(v))
            if ENGINE is not None and ENGINE.implied(z3.And(v >= 0, v <= n)):
                return v  # the common case: keeps slice terms small and mergeable
            v = z3.If(v < 0, v + n, v)
            return z3.If(v < 0, 0, z3.If(v > n, n, v))

        a = norm(idx.start, z3.IntVal(0))
        b = norm(idx.stop, n)
        if not (ENGINE is not None and ENGINE.implied(a <= b)):
            b = z3.If(b < a, a, b)
        return TStr([("sub", z3.simplify(lo + a), z3.simplify(lo + b))], self.n)

    # str methods the analysed code uses (content facts, see Facts)
    def endswith(self, suf, *_ignored):
        if isinstance(suf, TStr):
            a, b = self.single() or (None, None), suf.single() or (None, None)
            if a[0] is not None and b[0] is not None:
                if ENGINE.implied(z3.And(b[1] == a[1], b[0] >= a[0])):
                    return True  # positionally a suffix
                if self.key() == suf.key():
                    return True
                # harness assumption: a slice that does not end where the text ends is not textually its suffix
                return False
            raise NotEncodable("endswith(symbolic text)")
        if not isinstance(suf, str):
            raise NotEncodable("endswith(non-literal)")
        if self.atoms and self.atoms[-1][0] == "lit" and len(self.atoms[-1][1]) >= len(suf):
            return self.atoms[-1][1].endswith(suf)
        if not self.atoms:
            return "".endswith(suf)
        return ENGINE.facts.endswith(self, suf)

    def startswith(self, pre, *_ignored):
        if not isinstance(pre, str):
            raise NotEncodable("startswith(non-literal)")
        if self.atoms and self.atoms[0][0] == "lit" and len(self.atoms[0][1]) >= len(pre):
            return self.atoms[0][1].startswith(pre)
        if not self.atoms:
            return "".startswith(pre)
        return ENGINE.facts.startswith(self, pre)

    # transformations that produce ANOTHER text (content, possibly length, differ): the result is marked
    # `derived` so that harnesses can tell the document's own text from a copy of it
    derived = ()

    def _derive(self, op):
        t = DerivedText(list(self.atoms), self.n)
        t.derived = tuple(self.derived) + (op,)
        return t

    def replace(self, old, new, *a):
        return self._derive("replace")

    def translate(self, table):
        return self._derive("translate")

    def lower(self):
        return self._derive("lower")

    def upper(self):
        return self._derive("upper")

    def casefold(self):
        return self._derive("casefold")

    def __contains__(self, item):
        if not isinstance(item, str):
            raise NotEncodable("non-literal in symbolic text")
        if item == "":
            return True
        if not self.atoms:
            return False
        return bool(ENGINE.facts.has(self, item))

    def _find(self, item, last, a):
        """str.find / str.rfind of a literal: -1 iff the literal does not occur (the same fact as `in`), else an
        index with room for the literal; per slice and literal the first occurrence is not after the last."""
        if not isinstance(item, str):
            raise NotEncodable("find with a non-literal needle on symbolic text")
        if a:
            # s.find(x, i, j) == i + s[i:j].find(x) when found (for 0 <= i; a negative start is not modelled)
            lo_ = a[0] if a[0] is not None else 0
            hi_ = a[1] if len(a) > 1 else None
            if isinstance(lo_, SInt):
                if ENGINE.choose([lo_.e >= 0, lo_.e < 0]) == 1:
                    raise NotEncodable("find with a negative start on symbolic text")
            elif lo_ < 0:
                raise NotEncodable("find with a negative start on symbolic text")
            sub = self.getitem(slice(lo_, hi_))
            r = sub._find(item, last, ()) if isinstance(sub, TStr) else (sub.rfind(item) if last else sub.find(item))
            if isinstance(r, int) and r == -1:
                return -1
            return SInt(z3.simplify(lift_int(lo_) + lift_int(r)))
        if item == "":
            return 0 if not last else self.length()
        if not self.atoms or not bool(ENGINE.facts.has(self, item)):
            return -1
        sg = self.single()
        if sg is None:
            raise NotEncodable(f"find in composite text {self}")
        lo, hi = sg
        tab = ENGINE.path_state.setdefault("find_pos", {})
        k = (self.key(), item)
        if k not in tab:
            pf, pl = ENGINE.fresh_int("findF"), ENGINE.fresh_int("findL")
            ENGINE.add(lo <= pf, pf <= pl, pl + len(item) <= hi)
            tab[k] = (pf, pl)
        pf, pl = tab[k]
        return SInt(z3.simplify((pl if last else pf) - lo))

    def find(self, item, *a):
        return self._find(item, False, a)

    def rfind(self, item, *a):
        return self._find(item, True, a)

    def index(self, item, *a):
        r = self._find(item, False, a)
        if isinstance(r, int) and r == -1:
            raise ValueError("substring not found")
        return r

    def rindex(self, item, *a):
        r = self._find(item, True, a)
        if isinstance(r, int) and r == -1:
            raise ValueError("substring not found")
        return r

    def strip(self, chars=None):
        return ENGINE.facts.strip(self, True, True, chars)

    def lstrip(self, chars=None):
        return ENGINE.facts.strip(self, True, False, chars)

    def rstrip(self, chars=None):
        return ENGINE.facts.strip(self, False, True, chars)

    def covers(self, lo, hi):
        """z3 condition: the atoms are exactly base[lo:hi], in order (contiguity)."""
        c = lo
        conds = []
        for a in self.atoms:
            if a[0] == "lit":
                return z3.BoolVal(False)
            _, alo, ahi = a
            conds.append(z3.Or(ahi == alo, alo == c))
            c = z3.If(ahi > alo, ahi, c)
        conds.append(c == hi)
        return z3.And(*conds)

    def covers_base(self):
        return self.covers(z3.IntVal(0), self.n)

    def inside(self, lo, hi):
        """z3 condition: every non-empty slice atom lies within [lo, hi]."""
        conds = []
        for a in self.atoms:
            if a[0] == "sub":
                conds.append(z3.Or(a[1] == a[2], z3.And(lo <= a[1], a[2] <= hi)))
        return z3.And(*conds) if conds else z3.BoolVal(True)


class DerivedText(TStr):
    """a transformed copy of a symbolic text (same positions, other content)."""

    __slots__ = ("derived",)

    def getitem(self, idx):
        r = TStr.getitem(self, idx)
        t = DerivedText(list(r.atoms), r.n)
        t.derived = self.derived
        return t

    def _derive(self, op):
        t = DerivedText(list(self.atoms), self.n)
        t.derived = tuple(self.derived) + (op,)
        return t


class Facts:
    """content facts about TStr values, as fresh symbols with sound axioms.

    A fact is an *over-approximation*: the solver may pick any truth value that
    is consistent with the lengths.  Per slice, facts are made mutually
    consistent for the literal tests that the analysed code performs."""

    def __init__(self, eng):
        self.eng = eng
        self.tab = {}
        self.by_slice = {}
        self.strips = []

    @staticmethod
    def strippable(chars):
        if chars is None:
            return None  # whitespace: decided per code point with str.isspace
        return {ord(c) for c in chars}

    def solid_vs_strip(self, p, rs, lo, hi, L, R, chars):
        """a character at position p whose class `rs` contains no strippable character stops both strips."""
        st = self.strippable(chars)
        for a, b in rs:
            if st is None:
                if b - a > 5000 or any(chr(cp).isspace() for cp in range(a, b + 1)):
                    return
            elif any(a <= cp <= b for cp in st):
                return
        self.eng.add(z3.Implies(z3.And(lo <= p, p < hi), z3.And(L <= p - lo, R <= hi - 1 - p)))

    def add_solid(self, p, rs):
        """register: the character at position p of the base text belongs to the code-point ranges rs."""
        solids = self.eng.path_state.setdefault("solid", [])
        for p2, rs2 in solids:
            # one position cannot hold characters of two disjoint classes
            if not any(a <= d and c <= b for a, b in rs for c, d in rs2):
                self.eng.add(p != p2)
        solids.append((p, rs))
        for lo, hi, L, R, chars in self.strips:
            self.solid_vs_strip(p, rs, lo, hi, L, R, chars)

    def _fact(self, t, kind, lit):
        k = (t.key(), kind, lit)
        if k in self.tab:
            return self.tab[k]
        b = self.eng.fresh_bool(f"fact_{kind}")
        ln = t.length().e
        if kind == "eq":
            self.eng.add(z3.Implies(b, ln == len(lit)))
        else:
            self.eng.add(z3.Implies(b, ln >= len(lit)))
        # consistency with other literal facts on the same slice
        for (kind2, lit2), b2 in self.by_slice.setdefault(t.key(), {}).items():
            if kind == "eq" and kind2 == "eq" and lit != lit2:
                self.eng.add(z3.Not(z3.And(b, b2)))
            for (ka, la, ba), (kb, lb, bb) in (((kind, lit, b), (kind2, lit2, b2)), ((kind2, lit2, b2), (kind, lit, b))):
                if ka == "eq" and kb == "ends":
                    self.eng.add(z3.Implies(ba, bb) if la.endswith(lb) else z3.Not(z3.And(ba, bb)))
                if ka == "eq" and kb == "starts":
                    self.eng.add(z3.Implies(ba, bb) if la.startswith(lb) else z3.Not(z3.And(ba, bb)))
                if ka == "eq" and kb == "has":
                    self.eng.add(z3.Implies(ba, bb) if lb in la else z3.Not(z3.And(ba, bb)))
                if ka in ("ends", "starts") and kb == "has" and lb in la:
                    self.eng.add(z3.Implies(ba, bb))
        self.by_slice[t.key()][(kind, lit)] = b
        self.tab[k] = b
        return b

    def eq_lit(self, t, lit):
        return mkbool(self._fact(t, "eq", lit))

    def endswith(self, t, lit):
        return mkbool(self._fact(t, "ends", lit))

    def startswith(self, t, lit):
        return mkbool(self._fact(t, "starts", lit))

    def has(self, t, lit):
        if lit in self.eng.path_state.get("absent_literals", ()):
            return False  # harness bound: this literal does not occur in the text at all
        return mkbool(self._fact(t, "has", lit))

    def strip(self, t, left=True, right=True, chars=None):
        """a slice with characters removed from the chosen ends.  Per slice and character set there is ONE
        left amount L and ONE right amount R (so strip / lstrip / rstrip of the same text agree)."""
        if not t.atoms:
            return t
        sg = t.single()
        if sg is None:
            raise NotEncodable(f"strip of composite text {t}")
        lo, hi = sg
        k = (t.key(), "strip", chars)
        if k not in self.tab:
            L = self.eng.fresh_int("stripL")
            R = self.eng.fresh_int("stripR")
            ln = hi - lo
            # L = len iff every character is strippable iff R = len
            self.eng.add(L >= 0, R >= 0, L <= ln, R <= ln, (L == ln) == (R == ln))
            self.tab[k] = (L, R)
            self.strips.append((lo, hi, L, R, chars))
            for p, rs in self.eng.path_state.get("solid", ()):
                self.solid_vs_strip(p, rs, lo, hi, L, R, chars)
        L, R = self.tab[k]
        ln = hi - lo
        a = L if left else z3.IntVal(0)
        b = R if right else z3.IntVal(0)
        if left and right:
            # everything strippable -> empty
            return TStr([("sub", z3.simplify(lo + L), z3.simplify(z3.If(L == ln, lo + L, hi - R)))], t.n)
        return TStr([("sub", z3.simplify(lo + a), z3.simplify(hi - b))], t.n)


class Decision:
    __slots__ = ("choice", "alts")

    def __init__(self, choice, alts):
        self.choice = choice
        self.alts = alts


class Cut(BaseException):
    """raised when a prefix-enumeration run reaches its depth limit."""


class Engine:
    """Re-execution DFS over the forks of one harness run.

    Every symbolic branch calls choose(); the first time a decision point is
    reached each alternative is checked for feasibility under the current path
    condition (z3, mathematical integers), later re-executions replay the
    recorded choice.  explore() yields one result per feasible path.
    `forced` pins the first len(forced) decisions (used to split a run over
    processes); enumerate_prefixes() lists the feasible decision prefixes of a
    given depth."""

    def __init__(self, timeout_ms=10000, seed=0):
        self.decisions = []
        self.pos = 0
        self.solver = None
        self.pc = []
        self.base = []
        self.n_paths = 0
        self.n_queries = 0
        self.solver_time = 0.0
        self.timeout_ms = timeout_ms
        self.unknowns = 0
        self.forced = ()
        self.max_depth = None
        self.seed = seed
        self.ctr = 0
        self.n_infeasible = 0

    # -- fresh symbols: deterministic names per path position
    def fresh_int(self, name):
        self.ctr += 1
        return z3.Int(f"{name}!{self.ctr}")

    def fresh_bool(self, name):
        self.ctr += 1
        return z3.Bool(f"{name}!{self.ctr}")

    def assume(self, e):
        self.base.append(e)

    def add(self, *es):
        """add constraints to the current path (not a fork)."""
        for e in es:
            self.solver.add(e)
            self.pc.append(e)
        self.pc_added = True

    def _check(self, *extra):
        t0 = time.time()
        r = self.solver.check(*extra)
        self.solver_time += time.time() - t0
        self.n_queries += 1
        return r

    def choose(self, conds):
        """n-way fork: conds are z3 bools; returns index of the chosen one."""
        self.pc_added = False
        if self.pos < len(self.forced):
            c = self.forced[self.pos]
            self.pos += 1
            self.solver.add(conds[c])
            self.pc.append(conds[c])
            return c
        k = self.pos - len(self.forced)
        if k < len(self.decisions):
            d = self.decisions[k]
            self.pos += 1
            self.solver.add(conds[d.choice])
            self.pc.append(conds[d.choice])
            return d.choice
        if self.max_depth is not None and self.pos >= self.max_depth:
            raise Cut()
        feas = []
        for i, c in enumerate(conds):
            r = self._check(c)
            if r == z3.unknown:
                # one retry with a generous budget (a loaded machine must not turn into "unknown")
                self.solver.set("timeout", max(self.timeout_ms * 12, 120000))
                r = self._check(c)
                self.solver.set("timeout", self.timeout_ms)
            if r == z3.sat:
                feas.append(i)
            elif r == z3.unknown:
                self.unknowns += 1
                feas.append(i)  # conservatively explore
        if not feas:
            raise Infeasible()
        d = Decision(feas[0], feas[1:])
        self.decisions.append(d)
        self.pos += 1
        self.solver.add(conds[d.choice])
        self.pc.append(conds[d.choice])
        return d.choice

    def branch(self, e):
        return self.choose([e, z3.Not(e)]) == 0

    def concretize_int(self, e, lo=-2, hi=64):
        e = z3.simplify(e)
        if z3.is_int_value(e):
            return e.as_long()
        # fork over feasible concrete values in a bounded window
        vals = list(range(lo, hi + 1))
        conds = [e == v for v in vals] + [z3.Or(e < lo, e > hi)]
        i = self.choose(conds)
        if i == len(vals):
            raise BoundExceeded(f"concretize {e}")
        return vals[i]

    def _new_solver(self):
        self.solver = z3.Solver()
        self.solver.set("timeout", self.timeout_ms)
        self.solver.set("random_seed", self.seed % (2 ** 31))
        for b in self.base:
            self.solver.add(b)

    def explore(self, run, forced=()):
        """yield ("ok", value) / ("exc", exception) once per feasible path."""
        self.decisions = []
        self.forced = tuple(forced)
        while True:
            self.pos = 0
            self.pc = []
            self.ctr = 0
            self._new_solver()
            self.facts = Facts(self)
            self.path_state = {}
            self.pc_added = False
            try:
                out = ("ok", run())
            except Infeasible:
                out = None
                self.n_infeasible += 1
            except (NotEncodable, BoundExceeded, Cut):
                raise
            except Exception as ex:  # exception raised by analysed code
                out = ("exc", ex)
            if out is not None and self.pc_added and self._check() == z3.unsat:
                # constraints added after the last fork (stub contracts) closed the path: no execution follows it
                out = None
                self.n_infeasible += 1
            if out is not None:
                self.n_paths += 1
                yield out
            while self.decisions and not self.decisions[-1].alts:
                self.decisions.pop()
            if not self.decisions:
                return
            d = self.decisions[-1]
            d.choice = d.alts.pop(0)

    def enumerate_prefixes(self, run, depth):
        """feasible decision prefixes of length <= depth (shorter ones are
        complete paths); used to split the exploration over processes."""
        out = []
        self.decisions = []
        self.forced = ()
        self.max_depth = depth
        try:
            while True:
                self.pos = 0
                self.pc = []
                self.ctr = 0
                self._new_solver()
                self.facts = Facts(self)
                self.path_state = {}
                try:
                    run()
                    out.append(tuple(d.choice for d in self.decisions))
                except Cut:
                    out.append(tuple(d.choice for d in self.decisions))
                except Infeasible:
                    pass
                except (NotEncodable, BoundExceeded):
                    raise
                except Exception:
                    out.append(tuple(d.choice for d in self.decisions))
                while self.decisions and not self.decisions[-1].alts:
                    self.decisions.pop()
                if not self.decisions:
                    break
                d = self.decisions[-1]
                d.choice = d.alts.pop(0)
        finally:
            self.max_depth = None
        # de-duplicate, keep order
        seen = set()
        res = []
        for p in out:
            if p not in seen:
                seen.add(p)
                res.append(p)
        return res

    def valid(self, prop):
        """is prop valid under the current path condition? returns (verdict, model)."""
        if prop is True:
            return "valid", None
        if prop is False:
            e = z3.BoolVal(False)
        else:
            e = prop.e if isinstance(prop, SBool) else prop
        r = self._check(z3.Not(e))
        if r == z3.unknown:
            # one retry with a generous budget before giving up (a loaded machine must not turn into "unknown")
            self.solver.set("timeout", max(self.timeout_ms * 12, 120000))
            r = self._check(z3.Not(e))
            self.solver.set("timeout", self.timeout_ms)
        if r == z3.unsat:
            return "valid", None
        if r == z3.sat:
            return "cex", self.solver.model()
        self.unknowns += 1
        return "unknown", None

    def implied(self, e):
        """does the current path condition imply e? (unknown counts as no)"""
        e = z3.simplify(e)
        if z3.is_true(e):
            return True
        if z3.is_false(e):
            return False
        return self._check(z3.Not(e)) == z3.unsat

    def path_model(self):
        r = self._check()
        if r == z3.sat:
            return self.solver.model()
        return None


def mval(model, e, default=0):
    """integer value of z3 term / SInt / python int under a model."""
    if isinstance(e, SInt):
        e = e.e
    if isinstance(e, bool):
        return int(e)
    if isinstance(e, int):
        return e
    v = model.eval(e, model_completion=True)
    try:
        return v.as_long()
    except Exception:
        if z3.is_true(v):
            return 1
        if z3.is_false(v):
            return 0
        return default


# ---------------------------------------------------------------- interpreter
class Closure:
    def __init__(self, interp, node, globs, env=None, name=None, defaults=None, kwdefaults=None):
        self.interp = interp
        self.node = node
        self.globs = globs
        self.env = env
        self.__name__ = name or getattr(node, "name", "<lambda>")
        self.defaults = defaults or []
        self.kwdefaults = kwdefaults or {}

    def __call__(self, *a, **k):
        return self.interp.call_closure(self, a, k)

    def __get__(self, obj, objtype=None):
        if obj is None:
            return self
        return types.MethodType(self, obj)


class _Return(BaseException):
    def __init__(self, v):
        self.v = v


class _Break(BaseException):
    pass


class _Continue(BaseException):
    pass


class Env:
    def __init__(self, parent=None):
        self.vars = {}
        self.parent = parent

    def lookup(self, name):
        e = self
        while e is not None:
            if name in e.vars:
                return e.vars[name]
            e = e.parent
        raise KeyError(name)

    def has(self, name):
        e = self
        while e is not None:
            if name in e.vars:
                return True
            e = e.parent
        return False


STRLIKE = []  # classes that stand for `str` values (SStr, TStr, symre.CStr register here)


def is_symstr(x):
    return isinstance(x, tuple(STRLIKE))


def is_sym(x):
    return isinstance(x, (SInt, SBool)) or isinstance(x, tuple(STRLIKE))


class Interp:
    def __init__(self, engine, prefixes=("eyecite",), extra_modules=("bisect", "collections"), loop_bound=64):
        self.engine = engine
        self.prefixes = prefixes
        self.extra_modules = extra_modules
        self.stubs = {}
        self.src_cache = {}
        self.loop_bound = loop_bound
        self.encoded = {}  # qualname -> sha1 of source
        self.cov = set()  # (qualname, lineno relative to def)
        self.lines = {}  # qualname -> set of statement linenos
        self.fn_stack = []

    # -- function source handling
    def closure_of(self, f):
        key = f
        if key in self.src_cache:
            return self.src_cache[key]
        src = textwrap.dedent(inspect.getsource(f))
        tree = ast.parse(src)
        node = tree.body[0]
        if not isinstance(node, (ast.FunctionDef,)):
            raise NotEncodable(f"source of {f}")
        env = None
        if f.__closure__:
            env = Env()
            for name, cell in zip(f.__code__.co_freevars, f.__closure__):
                env.vars[name] = cell.cell_contents
        c = Closure(self, node, f.__globals__, env, f.__name__, list(f.__defaults__ or ()), dict(f.__kwdefaults__ or {}))
        c.qualname = f"{f.__module__}.{f.__qualname__}"
        c.defcls = self._defining_class(f)
        self.src_cache[key] = c
        import hashlib

        self.encoded[c.qualname] = hashlib.sha1(src.encode()).hexdigest()[:12]
        self.lines[c.qualname] = {n.lineno for n in ast.walk(node) if isinstance(n, ast.stmt) and n is not node and not (isinstance(n, ast.Expr) and isinstance(n.value, ast.Constant))}
        return c

    @staticmethod
    def _defining_class(f):
        qn = f.__qualname__.split(".")
        if len(qn) < 2 or qn[-2] == "<locals>":
            return None
        mod = sys.modules.get(f.__module__)
        obj = mod
        try:
            for part in qn[:-1]:
                obj = getattr(obj, part)
        except AttributeError:
            return None
        return obj if isinstance(obj, type) else None

    def has_source(self, f):
        """dataclass-generated methods have no source: they run natively."""
        try:
            self.closure_of(f)
            return True
        except (OSError, TypeError, NotEncodable, IndexError, SyntaxError):
            return False

    def interpretable(self, f):
        if not isinstance(f, types.FunctionType):
            return False
        m = f.__module__ or ""
        return any(m == p or m.startswith(p + ".") for p in self.prefixes) or m in self.extra_modules

    # -- calls
    def call(self, f, args, kwargs):
        if f in self.stubs:
            return self.stubs[f](*args, **kwargs)
        try:
            mm = MODELS.get(f)
        except TypeError:
            mm = None
        if mm is not None:
            return mm(self, *args, **kwargs)
        if isinstance(f, Closure):
            return self.call_closure(f, args, kwargs)
        if isinstance(f, types.MethodType):
            fn = f.__func__
            if fn in self.stubs:
                return self.stubs[fn](f.__self__, *args, **kwargs)
            return self.call(fn, (f.__self__,) + tuple(args), kwargs)
        if isinstance(f, functools.partial):
            kw = dict(f.keywords)
            kw.update(kwargs)
            return self.call(f.func, tuple(f.args) + tuple(args), kw)
        if isinstance(f, types.FunctionType):
            if self.interpretable(f):
                return self.call_closure(self.closure_of(f), args, kwargs)
            m = f.__module__ or ""
            if m in ("__main__", "dataclasses") or m.startswith("vf.") or m == "vf" or f.__qualname__.endswith("__init__"):
                return f(*args, **kwargs)
            if not any(deep_sym(a) for a in args) and not any(deep_sym(a) for a in kwargs.values()):
                # library code on concrete arguments runs natively
                return f(*args, **kwargs)
            if m in ("re", "regex", "regex.regex") and f.__name__ in ("search", "match", "fullmatch", "finditer", "findall", "sub", "split") and getattr(self, "pattern_hook", None) is not None and args and isinstance(args[0], str):
                # re.finditer(pattern, text) is re.compile(pattern).finditer(text): same hook as for compiled patterns
                import importlib

                mod = importlib.import_module("re" if m == "re" else "regex")
                kw = dict(kwargs)
                flags = kw.pop("flags", 0)
                rest = list(args[1:])
                n_subject = 2 if f.__name__ == "sub" else 1
                if len(rest) > n_subject and not kw and f.__name__ not in ("sub", "split"):
                    flags = rest.pop()
                return self.pattern_hook(mod.compile(args[0], flags), f.__name__, tuple(rest), kw)
            raise NotEncodable(f"call to non-repo python function {f.__module__}.{f.__qualname__} with symbolic arguments")
        if isinstance(f, type):
            return self.instantiate(f, args, kwargs)
        m = MODELS.get(f)
        if m is not None:
            return m(self, *args, **kwargs)
        if isinstance(f, types.BuiltinFunctionType) or isinstance(f, (types.MethodDescriptorType, types.BuiltinMethodType, types.WrapperDescriptorType, types.MethodWrapperType)):
            self_obj = getattr(f, "__self__", None)
            name = getattr(f, "__name__", "")
            if name == "join" and isinstance(self_obj, str):
                return m_join(self, self_obj, list(args[0]))
            if type(self_obj).__name__ == "Pattern" and any(is_symstr(a) for a in args):
                hook = getattr(self, "pattern_hook", None)
                if hook is None:
                    raise NotEncodable(f"compiled pattern .{name} on a symbolic string")
                return hook(self_obj, name, args, kwargs)
            if is_sym(self_obj) or (isinstance(self_obj, str) and name in STR_METHOD_MODELS and any(deep_sym(a) for a in args)):
                mm = STR_METHOD_MODELS.get(name)
                if mm is None:
                    raise NotEncodable(f"method {name} on symbolic")
                return mm(self, self_obj, *args, **kwargs)
            if args and name in ("get", "setdefault", "pop", "add", "discard", "remove", "__contains__", "__getitem__", "__setitem__", "count", "index"):
                if name in ("count", "index") and isinstance(self_obj, (list, tuple)) and self.interp_eq_class(args[0]) and not getattr(self, "native_keys_ok", False):
                    raise NotEncodable(f"native {type(self_obj).__name__}.{name} on an object of the analysed code")
                self._native_key_guard(self_obj, args[0])
            return f(*args, **kwargs)
        if callable(f):
            return f(*args, **kwargs)
        raise NotEncodable(f"call {f}")

    def instantiate(self, cls, args, kwargs):
        if cls in MODELS:
            return MODELS[cls](self, *args, **kwargs)
        mod = cls.__module__ or ""
        if any(mod == p or mod.startswith(p + ".") for p in self.prefixes) and dataclasses.is_dataclass(cls):
            # dataclass-generated __init__ has no source: run it natively (it only
            # assigns fields) but interpret __post_init__ symbolically.
            obj = object.__new__(cls)
            flds = [f for f in dataclasses.fields(cls) if f.init]
            vals = {}
            for f, a in zip(flds, args):
                vals[f.name] = a
            vals.update(kwargs)
            for f in dataclasses.fields(cls):
                if f.name in vals:
                    v = vals[f.name]
                elif f.default is not dataclasses.MISSING:
                    v = f.default
                elif f.default_factory is not dataclasses.MISSING:
                    v = f.default_factory()
                elif not f.init:
                    continue
                else:
                    raise TypeError(f"missing {f.name}")
                object.__setattr__(obj, f.name, v)
            pi = getattr(cls, "__post_init__", None)
            if pi is not None:
                self.call(pi, (obj,), {})
            return obj
        init = cls.__dict__.get("__init__")
        if isinstance(init, types.FunctionType) and self.interpretable(init):
            obj = object.__new__(cls)
            self.call(init, (obj,) + tuple(args), kwargs)
            return obj
        return cls(*args, **kwargs)

    def call_closure(self, c, args, kwargs):
        node = c.node
        env = Env(c.env)
        env.globs = c.globs
        env.closure = c
        a = node.args
        params = [p.arg for p in a.posonlyargs + a.args]
        args = list(args)
        if len(args) > len(params) and not a.vararg:
            raise TypeError("too many args")
        for p, v in zip(params, args):
            env.vars[p] = v
        if a.vararg:
            env.vars[a.vararg.arg] = tuple(args[len(params):])
        defaults = c.defaults
        nd = len(defaults)
        for i, p in enumerate(params):
            if p in env.vars:
                continue
            if p in kwargs:
                env.vars[p] = kwargs.pop(p)
            else:
                j = i - (len(params) - nd)
                if j < 0:
                    raise TypeError(f"missing arg {p}")
                env.vars[p] = defaults[j]
        for p in a.kwonlyargs:
            if p.arg in kwargs:
                env.vars[p.arg] = kwargs.pop(p.arg)
            else:
                env.vars[p.arg] = c.kwdefaults[p.arg]
        if a.kwarg:
            env.vars[a.kwarg.arg] = kwargs
        elif kwargs:
            raise TypeError(f"unexpected kwargs {kwargs}")
        if isinstance(node, ast.Lambda):
            return self.ev(node.body, env)
        is_gen = getattr(c, "is_gen", None)
        if is_gen is None:
            is_gen = c.is_gen = any(isinstance(x, (ast.Yield, ast.YieldFrom)) for x in ast.walk(node))
        if is_gen:
            # generators are run eagerly (sound when the body has no side effects that
            # interleave with the consumer; the evidence lists generator functions)
            env.yields = []
        self.fn_stack.append(getattr(c, "qualname", None))
        try:
            self.exec_block(node.body, env)
        except _Return as r:
            if is_gen:
                return iter(env.yields)
            return r.v
        finally:
            self.fn_stack.pop()
        if is_gen:
            return iter(env.yields)
        return None

    # -- statements
    def exec_block(self, stmts, env):
        for s in stmts:
            self.exec(s, env)

    def exec(self, s, env):
        m = getattr(self, "s_" + type(s).__name__, None)
        if m is None:
            raise NotEncodable(f"stmt {type(s).__name__}")
        if self.fn_stack and self.fn_stack[-1]:
            self.cov.add((self.fn_stack[-1], s.lineno))
        return m(s, env)

    def uncovered(self):
        out = {}
        for q, ls in self.lines.items():
            miss = sorted(l for l in ls if (q, l) not in self.cov)
            if miss:
                out[q] = miss
        return out

    def s_Expr(self, s, env):
        self.ev(s.value, env)

    def s_Pass(self, s, env):
        pass

    def s_Return(self, s, env):
        raise _Return(self.ev(s.value, env) if s.value else None)

    def s_Break(self, s, env):
        raise _Break()

    def s_Continue(self, s, env):
        raise _Continue()

    def s_Assign(self, s, env):
        v = self.ev(s.value, env)
        for t in s.targets:
            self.assign(t, v, env)

    def s_AnnAssign(self, s, env):
        if s.value is not None:
            self.assign(s.target, self.ev(s.value, env), env)

    def s_AugAssign(self, s, env):
        load = ast.copy_location(ast.fix_missing_locations(_as_load(s.target)), s)
        cur = self.ev(load, env)
        v = self.binop(s.op, cur, self.ev(s.value, env))
        self.assign(s.target, v, env)

    def assign(self, t, v, env):
        if isinstance(t, ast.Name):
            e = env
            # python scoping: assignment is local unless nonlocal/global declared
            if t.id in getattr(env, "nonlocals", ()):
                e = env.parent
                while t.id not in e.vars:
                    e = e.parent
            e.vars[t.id] = v
        elif isinstance(t, (ast.Tuple, ast.List)):
            vals = list(v)
            if len(vals) != len(t.elts):
                raise ValueError("unpack")
            for tt, vv in zip(t.elts, vals):
                self.assign(tt, vv, env)
        elif isinstance(t, ast.Attribute):
            obj = self.ev(t.value, env)
            setattr(obj, t.attr, v)
        elif isinstance(t, ast.Subscript):
            obj = self.ev(t.value, env)
            idx = self.ev_index(t.slice, env)
            self._native_key_guard(obj, idx)
            obj[idx] = v
        else:
            raise NotEncodable(f"assign target {type(t).__name__}")

    def s_Nonlocal(self, s, env):
        env.nonlocals = set(getattr(env, "nonlocals", ())) | set(s.names)

    def s_If(self, s, env):
        if self.truth(self.ev(s.test, env)):
            self.exec_block(s.body, env)
        else:
            self.exec_block(s.orelse, env)

    def s_For(self, s, env):
        it = self.ev(s.iter, env)
        n = 0
        for v in self.iterate(it):
            n += 1
            if n > self.loop_bound:
                raise BoundExceeded("for loop")
            self.assign(s.target, v, env)
            try:
                self.exec_block(s.body, env)
            except _Break:
                break
            except _Continue:
                continue
        else:
            self.exec_block(s.orelse, env)

    def s_While(self, s, env):
        n = 0
        while self.truth(self.ev(s.test, env)):
            n += 1
            if n > self.loop_bound:
                raise BoundExceeded("while loop")
            try:
                self.exec_block(s.body, env)
            except _Break:
                break
            except _Continue:
                continue
        else:
            self.exec_block(s.orelse, env)

    def s_FunctionDef(self, s, env):
        defaults = [self.ev(d, env) for d in s.args.defaults]
        kwd = {a.arg: self.ev(d, env) for a, d in zip(s.args.kwonlyargs, s.args.kw_defaults) if d is not None}
        c = Closure(self, s, env.globs, env, s.name, defaults, kwd)
        c.defcls = None
        c.qualname = (self.fn_stack[-1] or "?") + ".<locals>." + s.name if self.fn_stack else s.name
        env.vars[s.name] = c

    def s_Try(self, s, env):
        try:
            try:
                self.exec_block(s.body, env)
            except (_Return, _Break, _Continue, Infeasible, NotEncodable, BoundExceeded):
                raise
            except Exception as ex:
                for h in s.handlers:
                    if h.type is None:
                        ok = True
                    else:
                        et = self.ev(h.type, env)
                        ok = isinstance(ex, et)
                    if ok:
                        if h.name:
                            env.vars[h.name] = ex
                        self.exec_block(h.body, env)
                        break
                else:
                    raise
            else:
                self.exec_block(s.orelse, env)
        finally:
            self.exec_block(s.finalbody, env)

    def s_Raise(self, s, env):
        if s.exc is None:
            raise NotEncodable("bare raise")
        ex = self.ev(s.exc, env)
        if isinstance(ex, type):
            ex = ex()
        raise ex

    def s_Import(self, s, env):
        for a in s.names:
            mod = __import__(a.name)
            env.vars[a.asname or a.name.split(".")[0]] = mod

    def s_ImportFrom(self, s, env):
        import importlib

        mod = importlib.import_module(s.module)
        for a in s.names:
            env.vars[a.asname or a.name] = getattr(mod, a.name)

    def s_Assert(self, s, env):
        if not self.truth(self.ev(s.test, env)):
            raise AssertionError()

    # -- expressions
    def truth(self, v):
        if isinstance(v, collections.UserString) and is_sym(v.data):
            return bool(v.data)
        return bool(v)

    def iterate(self, it):
        if is_sym(it):
            raise NotEncodable("iterate symbolic")
        hook = getattr(self, "set_order_hook", None)
        if hook is not None and isinstance(it, (set, frozenset)) and len(it) > 1:
            # iteration order of a hash set is not part of the program's meaning: the harness decides it
            return iter(hook(list(it)))
        return iter(it)

    def ev(self, n, env):
        m = getattr(self, "e_" + type(n).__name__, None)
        if m is None:
            raise NotEncodable(f"expr {type(n).__name__}")
        return m(n, env)

    def e_Constant(self, n, env):
        return n.value

    def e_Name(self, n, env):
        try:
            return env.lookup(n.id)
        except KeyError:
            pass
        g = env.globs
        if n.id in g:
            return g[n.id]
        if hasattr(builtins, n.id):
            return getattr(builtins, n.id)
        raise NameError(n.id)

    def e_Tuple(self, n, env):
        return tuple(self.ev_elts(n.elts, env))

    def e_List(self, n, env):
        return list(self.ev_elts(n.elts, env))

    def e_Set(self, n, env):
        return self.call(set, (self.ev_elts(n.elts, env),), {})

    def ev_elts(self, elts, env):
        out = []
        for e in elts:
            if isinstance(e, ast.Starred):
                out.extend(self.ev(e.value, env))
            else:
                out.append(self.ev(e, env))
        return out

    def e_Dict(self, n, env):
        d = SymDict()
        d.interp = self
        for k, v in zip(n.keys, n.values):
            if k is None:
                d.update(self.ev(v, env))
            else:
                d[self.ev(k, env)] = self.ev(v, env)
        return d

    def e_Attribute(self, n, env):
        obj = self.ev(n.value, env)
        if isinstance(obj, SStr):
            return SymMethod(obj, n.attr)
        if isinstance(obj, _Super):
            return obj.get(n.attr)
        # properties defined in repo classes must be interpreted, not run natively
        if not isinstance(obj, (type, types.ModuleType)):
            for klass in type(obj).__mro__:
                if n.attr in klass.__dict__:
                    d = klass.__dict__[n.attr]
                    if isinstance(d, property) and self.interpretable(d.fget):
                        return self.call(d.fget, (obj,), {})
                    break
        return getattr(obj, n.attr)

    def e_Subscript(self, n, env):
        obj = self.ev(n.value, env)
        idx = self.ev_index(n.slice, env)
        return self.getitem(obj, idx)

    def ev_index(self, sl, env):
        if isinstance(sl, ast.Slice):
            return slice(
                self.ev(sl.lower, env) if sl.lower else None,
                self.ev(sl.upper, env) if sl.upper else None,
                self.ev(sl.step, env) if sl.step else None,
            )
        return self.ev(sl, env)

    def getitem(self, obj, idx):
        if isinstance(obj, (SStr, TStr)):
            return obj.getitem(idx)
        if isinstance(obj, str):
            symidx = isinstance(idx, SInt) or (isinstance(idx, slice) and any(isinstance(x, SInt) for x in (idx.start, idx.stop)))
            if symidx:
                return SStr(z3.StringVal(obj)).getitem(idx)
            return obj[idx]
        if isinstance(obj, collections.UserString) and is_sym(obj.data):
            return self.getitem(obj.data, idx)
        self._native_key_guard(obj, idx)
        return obj[idx]  # lists with SInt index concretise via __index__ (forks)

    def _native_key_guard(self, obj, key):
        # a native hash container would hash/compare an object of the analysed code with the *native*
        # __hash__/__eq__ (no forking on symbolic attributes): refuse rather than answer wrongly
        if getattr(self, "native_keys_ok", False):
            return  # the caller guarantees fully concrete objects (interpreter self-tests)
        if type(obj) in (dict, set, frozenset, collections.OrderedDict, collections.defaultdict, collections.Counter) and self.interp_eq_class(key):
            raise NotEncodable(f"object key {type(key).__name__} in a native {type(obj).__name__}")

    def e_BinOp(self, n, env):
        return self.binop(n.op, self.ev(n.left, env), self.ev(n.right, env))

    def binop(self, op, a, b):
        import operator as o

        f = {ast.Add: o.add, ast.Sub: o.sub, ast.Mult: o.mul, ast.FloorDiv: o.floordiv, ast.Div: o.truediv, ast.Mod: o.mod, ast.BitAnd: o.and_, ast.BitOr: o.or_}.get(type(op))
        if f is None:
            raise NotEncodable(f"binop {type(op).__name__}")
        if isinstance(a, str) and is_symstr(b) and f is o.add:
            return b.__radd__(a)
        return f(a, b)

    def e_UnaryOp(self, n, env):
        v = self.ev(n.operand, env)
        if isinstance(n.op, ast.Not):
            if isinstance(v, SBool):
                return mkbool(z3.Not(v.e))
            return not self.truth(v)
        if isinstance(n.op, ast.USub):
            return -v
        raise NotEncodable("unaryop")

    def e_BoolOp(self, n, env):
        # short-circuit semantics with forking on symbolic operands
        if isinstance(n.op, ast.And):
            v = True
            for e in n.values:
                v = self.ev(e, env)
                if not self.truth(v):
                    return v
            return v
        else:
            v = False
            for e in n.values:
                v = self.ev(e, env)
                if self.truth(v):
                    return v
            return v

    def e_IfExp(self, n, env):
        return self.ev(n.body, env) if self.truth(self.ev(n.test, env)) else self.ev(n.orelse, env)

    def e_Compare(self, n, env):
        left = self.ev(n.left, env)
        result = True
        for op, rn in zip(n.ops, n.comparators):
            right = self.ev(rn, env)
            r = self.compare(op, left, right)
            if not self.truth(r):
                return r if len(n.ops) == 1 else False
            result = r
            left = right
        return result

    def compare(self, op, a, b):
        t = type(op)
        if t is ast.Is:
            return a is b
        if t is ast.IsNot:
            return a is not b
        if t is ast.In:
            return self.contains(b, a)
        if t is ast.NotIn:
            r = self.contains(b, a)
            return mkbool(z3.Not(r.e)) if isinstance(r, SBool) else (not r)
        if t is ast.Eq:
            return self.eq(a, b)
        if t is ast.NotEq:
            r = self.eq(a, b)
            return mkbool(z3.Not(r.e)) if isinstance(r, SBool) else (not r)
        import operator as o

        f = {ast.Lt: o.lt, ast.LtE: o.le, ast.Gt: o.gt, ast.GtE: o.ge}[t]
        return f(a, b)

    def eq(self, a, b):
        if isinstance(a, SStr) or isinstance(b, SStr):
            if isinstance(a, collections.UserString):
                a = a.data
            if isinstance(b, collections.UserString):
                b = b.data
            if isinstance(a, (str, SStr)) and isinstance(b, (str, SStr)):
                return mkbool(lift_str(a) == lift_str(b))
            return False
        # classes of the analysed code that define __eq__ in Python source: interpret it
        for x, y in ((a, b), (b, a)):
            if not isinstance(x, (type, types.ModuleType)) and not is_sym(x):
                for klass in type(x).__mro__:
                    f = klass.__dict__.get("__eq__")
                    if f is not None:
                        if isinstance(f, types.FunctionType) and self.interpretable(f) and self.has_source(f):
                            return self.call(f, (x, y), {})
                        break
        return a == b

    def interp_eq_class(self, x):
        """x is an object whose class defines __eq__ in interpretable Python source."""
        if is_sym(x) or isinstance(x, (type, types.ModuleType, str, int, tuple, list, dict)) or x is None:
            return False
        for klass in type(x).__mro__:
            f = klass.__dict__.get("__eq__")
            if f is not None:
                return isinstance(f, types.FunctionType) and self.interpretable(f) and self.has_source(f)
        return False

    def hash_of(self, x):
        for klass in type(x).__mro__:
            f = klass.__dict__.get("__hash__")
            if f is not None:
                if isinstance(f, types.FunctionType) and self.interpretable(f) and self.has_source(f):
                    return self.call(f, (x,), {})
                break
        if hasattr(x, "sym_hash"):
            return x.sym_hash()
        return hash(x)

    def contains(self, container, item):
        if hasattr(container, "sym_contains"):
            return container.sym_contains(item)
        if isinstance(container, SStr) or (isinstance(container, str) and isinstance(item, SStr)):
            return mkbool(z3.Contains(lift_str(container), lift_str(item)))
        if isinstance(container, (list, tuple)):
            for x in container:
                if x is item or self.truth(self.eq(x, item)):
                    return True
            return False
        self._native_key_guard(container, item)
        return item in container

    def e_Call(self, n, env):
        # super() support
        if isinstance(n.func, ast.Name) and n.func.id == "super" and not n.args:
            c = env
            while not hasattr(c, "closure"):
                c = c.parent
            clo = c.closure
            selfname = clo.node.args.args[0].arg
            return _Super(self, clo.defcls, env.lookup(selfname))
        f = self.ev(n.func, env)
        args = self.ev_elts(n.args, env)
        kwargs = {}
        for k in n.keywords:
            if k.arg is None:
                kwargs.update(self.ev(k.value, env))
            else:
                kwargs[k.arg] = self.ev(k.value, env)
        if isinstance(f, SymMethod):
            return f(self, *args, **kwargs)
        return self.call(f, args, kwargs)

    def e_Lambda(self, n, env):
        c = Closure(self, n, env.globs, env, "<lambda>")
        c.defcls = None
        return c

    def e_JoinedStr(self, n, env):
        out = ""
        for v in n.values:
            if isinstance(v, ast.Constant):
                piece = v.value
            else:
                piece = MODELS[str](self, self.ev(v.value, env))
            out = self.binop(ast.Add(), out, piece)
        return out

    def _comp(self, gens, env, emit):
        def rec(i, env):
            if i == len(gens):
                emit(env)
                return
            g = gens[i]
            for v in self.iterate(self.ev(g.iter, env)):
                e2 = Env(env)
                e2.globs = env.globs
                self.assign(g.target, v, e2)
                if all(self.truth(self.ev(c, e2)) for c in g.ifs):
                    rec(i + 1, e2)

        rec(0, env)

    def e_ListComp(self, n, env):
        out = []
        self._comp(n.generators, env, lambda e: out.append(self.ev(n.elt, e)))
        return out

    def e_GeneratorExp(self, n, env):
        return iter(self.e_ListComp(n, env))

    def e_SetComp(self, n, env):
        return self.call(set, (self.e_ListComp(n, env),), {})

    def e_DictComp(self, n, env):
        pairs = []
        self._comp(n.generators, env, lambda e: pairs.append((self.ev(n.key, e), self.ev(n.value, e))))
        if any(deep_sym(k) or self.interp_eq_class(k) for k, _ in pairs):
            out = SymDict()
            out.interp = self
            for k, v in pairs:
                out[k] = v
            return out
        return dict(pairs)

    def _yield_env(self, env):
        e = env
        while e is not None and not hasattr(e, "yields"):
            e = e.parent
        if e is None:
            raise NotEncodable("yield outside an interpreted generator")
        return e

    def e_NamedExpr(self, n, env):
        v = self.ev(n.value, env)
        # PEP 572: the target binds in the enclosing function scope, not in the comprehension
        e = env
        while e.parent is not None and not hasattr(e, "closure"):
            e = e.parent
        e.vars[n.target.id] = v
        return v

    def e_Yield(self, n, env):
        self._yield_env(env).yields.append(self.ev(n.value, env) if n.value else None)
        return None

    def e_YieldFrom(self, n, env):
        self._yield_env(env).yields.extend(self.iterate(self.ev(n.value, env)))
        return None

    def e_Starred(self, n, env):
        raise NotEncodable("starred")


class _Super:
    def __init__(self, interp, cls, obj):
        self.interp, self.cls, self.obj = interp, cls, obj

    def get(self, name):
        mro = type(self.obj).__mro__
        i = mro.index(self.cls)
        for k in mro[i + 1:]:
            if name in k.__dict__:
                f = k.__dict__[name]
                return types.MethodType(f, self.obj)
        raise AttributeError(name)


class SymMethod:
    def __init__(self, obj, name):
        self.obj, self.name = obj, name

    def __call__(self, interp, *a, **k):
        m = STR_METHOD_MODELS.get(self.name)
        if m is None:
            raise NotEncodable(f"str.{self.name} on symbolic")
        return m(interp, self.obj, *a, **k)


class SymDict(dict):
    """a dict that also accepts keys containing symbolic ints: such keys live in a side list and are
    compared by (forking) equality; concrete keys behave exactly like a dict's."""

    interp = None  # set per instance by the interpreter that creates it

    def __init__(self, *a, **k):
        super().__init__(*a, **k)
        self.items_ = []

    def _sym(self, k):
        # keys with symbolic parts, and objects of the analysed code whose __eq__/__hash__ are Python source
        # (their equality is decided by interpreting that source, forking on symbolic attributes)
        return deep_sym(k) or (self.interp is not None and self.interp.interp_eq_class(k))

    def _keyeq(self, a, b):
        if a is b:
            return True
        if self.interp is not None and (self.interp.interp_eq_class(a) or self.interp.interp_eq_class(b)):
            return bool(self.interp.truth(self.interp.eq(a, b)))
        return _keyeq(a, b)

    def __setitem__(self, k, v):
        if not self._sym(k) and not self.items_:
            return super().__setitem__(k, v)
        for i, (kk, vv) in enumerate(self.items_):
            if self._keyeq(kk, k):
                self.items_[i] = (kk, v)
                return
        if not self._sym(k) and super().__contains__(k):
            return super().__setitem__(k, v)
        for kk in list(super().keys()):
            if self._sym(k) and self._keyeq(kk, k):
                return super().__setitem__(kk, v)
        self.items_.append((k, v))

    def _find(self, k):
        for kk, vv in self.items_:
            if self._keyeq(kk, k):
                return (True, vv)
        if not self._sym(k):
            if super().__contains__(k):
                return (True, super().__getitem__(k))
            return (False, None)
        for kk in list(super().keys()):
            if self._keyeq(kk, k):
                return (True, super().__getitem__(kk))
        return (False, None)

    def __getitem__(self, k):
        ok, v = self._find(k)
        if not ok:
            raise KeyError(k)
        return v

    def __contains__(self, k):
        return self._find(k)[0]

    def get(self, k, default=None):
        ok, v = self._find(k)
        return v if ok else default

    def values(self):
        return list(super().values()) + [v for k, v in self.items_]

    def keys(self):
        return list(super().keys()) + [k for k, v in self.items_]

    def items(self):
        return list(super().items()) + list(self.items_)

    def __iter__(self):
        return iter(self.keys())

    def __len__(self):
        return super().__len__() + len(self.items_)

    def __bool__(self):
        return len(self) > 0

    def finish(self):
        return self


def _keyeq(a, b):
    if isinstance(a, tuple) and isinstance(b, tuple):
        return len(a) == len(b) and all(_keyeq(x, y) for x, y in zip(a, b))
    return bool(a == b)


def _as_load(t):
    import copy

    t2 = copy.deepcopy(t)
    t2.ctx = ast.Load()
    return t2


def deep_sym(x):
    if is_sym(x):
        return True
    if isinstance(x, (list, tuple)):
        return any(deep_sym(y) for y in x)
    if isinstance(x, collections.UserString):
        return is_sym(x.data)
    return False


# ---------------------------------------------------------------- models of builtins
def m_len(interp, x):
    if isinstance(x, (SStr, TStr)):
        return x.length()
    if hasattr(x, "sym_len"):
        return x.sym_len()
    if isinstance(x, collections.UserString) and isinstance(x.data, (SStr, TStr)):
        return x.data.length()
    return len(x)


def m_isinstance(interp, x, t):
    if is_symstr(x):
        ts = t if isinstance(t, tuple) else (t,)
        return any(issubclass(str, k) for k in ts)
    if isinstance(x, SInt):
        ts = t if isinstance(t, tuple) else (t,)
        return any(issubclass(int, k) for k in ts)
    return isinstance(x, t)


def m_str(interp, x=""):
    if is_symstr(x):
        return x
    if isinstance(x, collections.UserString):
        return x.data
    if is_sym(x):
        raise NotEncodable("str() of symbolic int")
    return str(x)


def m_sorted(interp, it, key=None, reverse=False):
    items = list(it)
    keys = [interp.call(key, (x,), {}) if key else x for x in items]
    # stable insertion sort with (forking) comparisons
    order = []
    for i in range(len(items)):
        j = len(order)
        # reverse=True keeps the original order of equal keys too (it is not the reversed ascending sort)
        while j > 0 and interp.truth(_lt(keys[order[j - 1]], keys[i]) if reverse else _lt(keys[i], keys[order[j - 1]])):
            j -= 1
        order.insert(j, i)
    return [items[i] for i in order]


def _lt(a, b):
    if isinstance(a, tuple):
        for x, y in zip(a, b):
            if not bool(x == y):
                return _lt(x, y)
        return len(a) < len(b)
    return a < b


def m_cast(interp, t, v):
    return v


def m_set(interp, it=()):
    items = list(it)
    if any(deep_sym(x) for x in items):
        raise NotEncodable("set of symbolic")
    return set(items)


def m_join(interp, sep, parts):
    out = ""
    first = True
    for p in parts:
        p = m_str(interp, p) if not (isinstance(p, str) or is_symstr(p)) else p
        if not first and sep != "":
            out = interp.binop(ast.Add(), out, sep)
        out = interp.binop(ast.Add(), out, p)
        first = False
    return out


STRLIKE.extend([SStr, TStr])


class SymRange:
    """range() with symbolic bounds: supports membership (and iteration only when concrete)."""

    def __init__(self, start, stop, step=1):
        if isinstance(step, SInt):
            raise NotEncodable("range with symbolic step")
        self.start, self.stop, self.step = start, stop, step

    def sym_contains(self, x):
        a, b, x = lift_int(self.start), lift_int(self.stop), lift_int(x)
        if self.step == 1:
            return mkbool(z3.And(a <= x, x < b))
        if self.step > 0:
            return mkbool(z3.And(a <= x, x < b, (x - a) % self.step == 0))
        return mkbool(z3.And(b < x, x <= a, (a - x) % (-self.step) == 0))

    def __iter__(self):
        raise NotEncodable("iteration over a range with symbolic bounds")

    def __len__(self):
        raise NotEncodable("len of a range with symbolic bounds")


def m_range(interp, *a):
    if any(isinstance(x, SInt) for x in a):
        if len(a) == 1:
            return SymRange(0, a[0])
        return SymRange(*a)
    return range(*a)

MODELS = {
    range: m_range,
    hash: lambda interp, x: interp.hash_of(x),
    len: m_len,
    isinstance: m_isinstance,
    str: m_str,
    sorted: m_sorted,
    set: m_set,
}
try:
    import typing

    MODELS[typing.cast] = m_cast
except Exception:
    pass

STR_METHOD_MODELS = {
    "join": m_join,
    "endswith": lambda interp, s, x: (s if isinstance(s, SStr) else SStr(z3.StringVal(s))).endswith(x),
    "startswith": lambda interp, s, x: (s if isinstance(s, SStr) else SStr(z3.StringVal(s))).startswith(x),
}
