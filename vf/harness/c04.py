"""C04 — extraction, resolution and annotation never raise (partial: the pure-Python layers).

"No feasible path ends in an exception" is asserted on the symbolic explorations of
  * the extraction helpers (vf.harness.c02: all writers, symbolic document windows),
  * Tokenizer.tokenize (vf.harness.c12: arbitrary candidate tokens),
  * resolve_citations (vf.harness.c06: arbitrary citation lists, incl. placeholder pages of every kind),
  * annotate_citations / SpanUpdater (vf.harness.c09: all three modes, arbitrary scripts and spans),
  * HyperscanTokenizer.extract_tokens' offset table and the cache loader (vf.harness.c14).
under the contract stubs for the C libraries; exceptions raised *inside* regex/hyperscan/lxml on hostile
strings are outside this technique.
"""
import logging

from vf import common


def check(rep):
    from vf.harness import c02, c06, c09, c12

    quick = rep.tier == "quick"
    rep.bounds.append("the bounds of the five harnesses it rides on: document windows of <= 2/3 pieces, <= 2/3 candidate tokens, citation lists of <= 3/4, <= 2 annotations with <= 3/4 diff blocks")
    rep.outside += ["exceptions or non-termination inside the C libraries (regex, hyperscan, lxml, pyahocorasick, diff-match-patch) on hostile strings", "lxml parse errors other than the one is_balanced_html catches", "get_citations' glue between the helpers beyond what the harnesses interpret"]
    exc_findings = []
    # extraction helpers
    findings, W = c02.explore_parts(rep, "C04")
    c02.common_notes(rep, W)
    c02.settle(rep, "C04", findings, ["C04:"])
    tot_ob = tot_ok = 0
    # tokenize
    agg = common.explore_split("vf.harness.c12", {"K": 2}, depth=2)
    rep.merge_explore("tokenize", agg)
    ex = [f for f in agg["findings"] if f["clause"].startswith("no_exception")]
    rep.oblige(agg["paths"] - agg["exc_paths"])
    rep.oblige(agg["exc_paths"], ok=False)
    for f in ex:
        rep.replays += 1
        text, res = c12.replay(f["witness"])
        if any("no_exception" in c for v in res.values() for c in v):
            rep.violation(f"tokenize raised on text {text!r} with candidate tokens {f['witness']['tokens']}: {res}", {"kind": "tokens", "witness": f["witness"]})
            break
    else:
        if ex:
            rep.inconc(f"tokenize: exception path did not reproduce: {ex[0]['witness']}")
    # resolver
    agg = common.explore_split("vf.harness.c06", {"L": 3, "prefixes": False}, depth=3)
    rep.merge_explore("resolve", agg)
    ex = [f for f in agg["findings"] if f["clause"].startswith("C06:returns_mapping")]
    rep.oblige(agg["paths"] - agg["exc_paths"])
    rep.oblige(agg["exc_paths"], ok=False)
    seen = False
    for f in ex:
        rep.replays += 1
        cs = c06.build_concrete(f["witness"])
        bad, groups = c06.concrete_oracle(cs)
        if any(b.startswith("C06:returns_mapping") for b in bad):
            rep.violation(f"resolve_citations raised on {f['witness']['citations']}: {bad}", {"kind": "resolve", "witness": f["witness"]})
            seen = True
            break
    if ex and not seen:
        rep.inconc(f"resolve: exception path did not reproduce: {ex[0]['witness']}")
    # the id. pin-cite test on text (arbitrary characters): must not raise
    from vf.harness import pinlemma

    pinlemma.fold(rep, "C04")
    from vf.harness import punctlemma

    punctlemma.fold(rep, "C04")
    # annotate
    for name, params in (("annotate_plain", {"M": 2, "K": 0, "quick": True, "modes": ["unchecked", "wrap"]}), ("annotate_source", {"M": 2, "K": 3, "quick": True, "modes": ["unchecked"]}), ("annotate_skip", {"M": 1, "K": 0, "quick": True, "modes": ["skip"]})):
        agg = common.explore_split("vf.harness.c09", params, depth=4)
        rep.merge_explore(name, agg)
        ex = [f for f in agg["findings"] if f["clause"].startswith("no_exception")]
        rep.oblige(agg["paths"] - agg["exc_paths"])
        rep.oblige(agg["exc_paths"], ok=False)
        seen = False
        for f in ex:
            rep.replays += 1
            plain, source, anns, out, bad, tried = c09.replay(f["witness"], want="no_exception")
            if bad:
                rep.violation(f"annotate_citations({plain!r}, {[a[0] for a in anns]}, source_text={source!r}, unbalanced_tags={f['witness']['mode']!r}) raised: {bad}", {"kind": "annotate", "witness": f["witness"]})
                seen = True
                break
        if ex and not seen:
            rep.inconc(f"{name}: exception path did not reproduce: {ex[0]['witness']}")
    # hyperscan offset table + cache loader
    try:
        from vf.harness import c14

        c14.fold_into_c04(rep)
    except (ImportError, AttributeError):
        rep.outside.append("HyperscanTokenizer.extract_tokens offset table and cache loader (see C14)")
    rep.distinct = rep.evaluations
    # regression witnesses (fixed findings)
    logging.disable(logging.WARNING)
    from eyecite import annotate_citations, get_citations, resolve_citations
    import eyecite.models as M
    import eyecite.tokenizers as T

    cases = [
        ("resolve placeholder journal", lambda: resolve_citations(get_citations("1 Minn. L. Rev. ___. Id. at 5."))),
        ("annotate empty plain", lambda: annotate_citations("", [((0, 0), "[", "]")], source_text="x")),
        ("aho-corasick without strings", lambda: T.AhocorasickTokenizer(extractors=[M.TokenExtractor("(a)", M.IdToken.from_match)]).tokenize("xay")),
    ]
    for name, fn in cases:
        rep.replays += 1
        try:
            fn()
        except Exception as ex:
            rep.violation(f"{name}: raised {type(ex).__name__}: {ex}", {"kind": "named", "name": name})
    logging.disable(logging.NOTSET)
    return rep.finish(
        explanation="'No feasible path ends in an exception' asserted on the path-exhaustive symbolic explorations of the extraction helpers, tokenize, resolve_citations and annotate_citations (real source, contract stubs for the C libraries); exception paths are replayed on the real code before being reported.",
        technique="symbolic execution of the Python source (AST interpreter) with z3 path feasibility; property = no exception on any feasible path",
    )


def replay_file(path):
    import json

    r = json.load(open(path))["replay"]
    print("see the owning harness for replay of", r.get("kind"))
    if r.get("kind") == "pin":
        from vf.harness import pinlemma

        return pinlemma.replay(r)
    if r.get("kind") == "punct":
        from vf.harness import punctlemma

        return punctlemma.replay(r)
    if r.get("kind") == "text":
        from vf.harness import c02

        bad, cs = c02.oracle_text(r["text"])
        print(bad)
        return 1 if bad else 0
    return 1
