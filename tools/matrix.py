#!/usr/bin/env python3
"""Run the relevant quick checks against every seeded change and write seeded/MATRIX.json.
usage: tools/matrix.py [seed-name-prefix ...]
Works on a scratch clone of /repo (VF_REPO, default /tmp/mrepo: `git clone /repo /tmp/mrepo`) and writes evidence/replays
of those runs to /tmp/mrepo_out, so /repo and /verif/evidence are never touched."""
import json, os, re, subprocess, sys, time

ROOT = os.path.dirname(os.path.dirname(os.path.abspath(__file__)))
TARGETS = {
    "C01-5A": ["C01", "C02"], "C01-5B": ["C01", "C16"], "C04-5A": ["C04", "C14"], "C04-5B": ["C04", "C09"], "C07-5A": ["C07"], "C07-5B": ["C07"],
    "C12-5A": ["C12"], "C12-5B": ["C12"], "C14-5A": ["C14"], "C14-5B": ["C14"], "C16-5A": ["C16"], "C16-5B": ["C16"],
    "C18-5A": ["C18"], "C18-5B": ["C18"], "C19-5A": ["C19", "C15"], "C19-5B": ["C19"],
    "revert-512c15e": ["C04", "C07"],
    "revert-41c2892": ["C16"],
    "C04-4A": ["C04", "C17"], "C04-4B": ["C04", "C07"], "C07-4A": ["C07", "C05"], "C07-4B": ["C07", "C06"], "C08-4A": ["C08", "C07"], "C08-4B": ["C08", "C06"],
    "C13-4A": ["C13"], "C13-4B": ["C13"], "C20-4A": ["C20"], "C20-4B": ["C20"], "C06-4A": ["C06"], "C06-4B": ["C06"], "C14-4A": ["C14"], "C14-4B": ["C14"],
    "C15-4A": ["C15", "C16"], "C15-4B": ["C15"], "C01-4A": ["C01", "C16", "C15"], "C01-4B": ["C01", "C02", "C17"], "C12-4A": ["C12"], "C12-4B": ["C12", "C15"],
    "C05-4A": ["C05", "C07"], "C05-4B": ["C05", "C07"], "C18-4A": ["C18"], "C18-4B": ["C18", "C03"], "C19-4A": ["C19"], "C19-4B": ["C19", "C17"],
    "C17-4A": ["C17", "C02"], "C17-4B": ["C17", "C02"], "C16-4A": ["C16"], "C16-4B": ["C16", "C18"], "C10-4A": ["C10", "C09"], "C10-4B": ["C10"],
    "C09-4A": ["C09"], "C09-4B": ["C09", "C10"], "C02-4A": ["C02"], "C02-4B": ["C02", "C17"], "C03-4A": ["C03"], "C03-4B": ["C03"],
    "revert-d425be7": ["C12"], "revert-c0cea22": ["C02"], "revert-221b768": ["C02"], "revert-716f3b8": ["C18"], "revert-e1d1b05": ["C03"],
    "revert-13cbc3c": ["C06", "C04"], "revert-a5a64b9": ["C14", "C04"], "revert-f763528": ["C09", "C10", "C04"], "revert-1e8145f": ["C09"], "revert-4629932": ["C09"],
    "revert-47ccb3d-global-extractors": ["C13"], "revert-a74582e-casefold": ["C13"], "revert-8633444": ["C15"], "revert-3f213ac": ["C14"], "revert-6039c69": ["C17"],
    "revert-19133e7": ["C13", "C04"], "revert-4c3914e": ["C17"], "revert-b690870": ["C16", "C06"], "revert-268c40b": ["C03"], "revert-7014b83": ["C19"], "revert-15c731a": ["C09", "C04"],
    "C04-3A": ["C04", "C06"], "C04-3B": ["C04", "C12"], "C01-3A": ["C01", "C17"], "C01-3B": ["C01", "C16", "C15"], "refactor-R2-B": ["C03", "C19", "C18", "C04"],
    "C05-2B": ["C05", "C07"], "C07-2B": ["C07"], "C10-2B": ["C10"], "C09-2B": ["C09"],
    "C13-A-fold-order": ["C13"], "mine-C01-noescape": ["C01"], "mine-C01-page5": ["C01"], "mine-C20-noplus": ["C20"], "mine-C20-underscore1": ["C20"],
    "C04-A": ["C04", "C09"], "C04-B": ["C04", "C07"], "C05-A": ["C05", "C07"], "C05-B": ["C05", "C07"], "C06-A": ["C06", "C16"], "C06-B": ["C06", "C16"],
    "C05-2A": ["C05", "C17"], "C16-2A": ["C16", "C15"], "C18-2B": ["C18", "C17"], "C02-2B": ["C02", "C12"], "C12-2A": ["C12", "C02"], "C03-2A": ["C03"], "C19-2A": ["C19"],
    "C10-A": ["C10"], "C10-B": ["C10"], "C17-A": ["C17"], "C17-B": ["C17", "C02"], "C03-B": ["C03", "C02"], "C14-A": ["C14"], "C14-B": ["C14"], "C16-A": ["C16", "C18"],
}
names = sorted(os.listdir(os.path.join(ROOT, "seeded")))
names = [n for n in names if os.path.isfile(os.path.join(ROOT, "seeded", n, "patch.diff"))]
sel = sys.argv[1:]
if sel:
    names = [n for n in names if any(n.startswith(s) for s in sel)]
out_path = os.path.join(ROOT, "seeded", "MATRIX.json")
matrix = json.load(open(out_path)) if os.path.exists(out_path) else {}
for n in names:
    if n.startswith("refactor-") and n not in TARGETS:
        # behaviour-preserving refactorings: EVERY check must stay quiet (no VIOLATION)
        checks = ["C%02d" % k for k in range(1, 21) if k != 11]
    else:
        checks = TARGETS.get(n) or [n.split("-")[0]]
    for c in checks:
        t0 = time.time()
        env = dict(os.environ, VF_REPO=os.environ.get("VF_REPO", "/tmp/mrepo"), VF_OUT_DIR="/tmp/mrepo_out")
        r = subprocess.run([os.path.join(ROOT, "tools/with_patch.sh"), os.path.join(ROOT, "seeded", n, "patch.diff"), "--", os.path.join(ROOT, "check"), c, "--tier", "quick"], capture_output=True, text=True, cwd=ROOT, env=env)
        viol = [l for l in r.stdout.splitlines() if l.startswith("VIOLATION")]
        first = ""
        lines = r.stdout.splitlines()
        for i, l in enumerate(lines):
            if l.startswith("VIOLATION") and i + 1 < len(lines):
                first = lines[i + 1].strip()[:300]
                break
        inc = [l for l in lines if l.startswith("INCONCLUSIVE")]
        verdict = "VIOLATION" if r.returncode == 1 and viol else ("inconclusive" if r.returncode == 2 else ("pass" if r.returncode == 0 else f"rc={r.returncode}"))
        matrix.setdefault(n, {})[c] = {"verdict": verdict, "violations": len(viol), "first": first, "inconclusive": inc[:1], "wall_s": round(time.time() - t0, 1)}
        print(n, c, verdict, len(viol), round(time.time() - t0), flush=True)
        json.dump(matrix, open(out_path, "w"), indent=1)
