"""C14 (e): byte-level language of the patterns handed to Hyperscan.

Hyperscan is given the UTF-8 *bytes* of each pattern and, without UTF-8 mode, reads them as a pattern over
bytes: a multi-byte character is a sequence of byte literals, a class lists bytes, `\\w \\d \\s` and case folding
are ASCII-only, a quantifier binds to the last byte, and `{,n}` is literal text (PCRE has no such quantifier).  Python reads the same pattern over characters.  For the
token itself (capture group 1 of every extractor) this module decides, per extractor and with no length bound:

    for every string w over  ASCII + representative multi-byte characters  that Python's pattern for group 1
    matches in full, the UTF-8 bytes of w are matched in full by the byte-level reading of the converted pattern

i.e. utf8(L_python(group 1)) is included in L_bytes(group 1) - a regular-language inclusion decided by z3.  If it
fails, the witness is a token the reference tokenizer reports and Hyperscan cannot; it is replayed on the two
real tokenizers.  The boundary characters around group 1 are not part of this clause (a multi-byte *neighbour* is
the known finding of C14).

Byte-level reading (the model of Hyperscan's parser, part of the claim): the pattern bytes decoded as latin-1 and
parsed by CPython's re parser with ASCII-only tables (re.ASCII) - PCRE semantics without UCP/UTF.
Representative alphabet (the bound): every non-ASCII character that occurs literally in some extractor pattern,
plus letters and non-letters of 2, 3 and 4 UTF-8 bytes, none of them whitespace, a digit, or a case variant of an
ASCII letter (the property's domain).
"""
import re
import re._constants as sc
import re._parser as sp

import z3

from vf import common, rex

GENERIC = ["é", "¢", "ß", "中", "”", "—", "𝐀", "😀"]
_S = {}


def setup():
    if _S:
        return _S
    from vf.harness import c14

    exts, (expressions, flags), enc = c14.captured_expressions()
    special = sorted({ch for e in exts for ch in e.regex if ord(ch) > 127})
    sigma = []
    for ch in special + GENERIC:
        if ch in sigma or ch.isspace() or ch.isdigit() or ch.lower().isascii() or ch.upper().isascii():
            continue
        sigma.append(ch)
    _S.update(exts=list(exts), expressions=list(expressions), sigma=sigma, enc=enc)
    return _S


def group1(parsed):
    """the sub-pattern of capture group 1."""

    def find(seq):
        for op, av in seq:
            if op == sc.SUBPATTERN:
                if av[0] == 1:
                    return av[3]
                r = find(av[3])
                if r is not None:
                    return r
            elif op == sc.BRANCH:
                for b in av[1]:
                    r = find(b)
                    if r is not None:
                        return r
            elif op in (sc.MAX_REPEAT, sc.MIN_REPEAT):
                r = find(av[2])
                if r is not None:
                    return r
        return None

    return find(parsed)


def multibyte_capable(seq, flags):
    """does the sub-pattern contain a single-character item that can match a non-ASCII character?"""
    from vf import symre

    for op, av in seq:
        if op == sc.LITERAL and av > 127:
            return True
        if op in (sc.NOT_LITERAL, sc.ANY):
            return True
        if op == sc.IN:
            try:
                if any(b > 127 for a, b in symre.class_ranges_full(av, flags)):
                    return True
            except Exception:
                return True
        if op == sc.SUBPATTERN and multibyte_capable(av[3], flags):
            return True
        if op == sc.BRANCH and any(multibyte_capable(b, flags) for b in av[1]):
            return True
        if op in (sc.MAX_REPEAT, sc.MIN_REPEAT) and multibyte_capable(av[2], flags):
            return True
        if op in (sc.ASSERT, sc.ASSERT_NOT) and multibyte_capable(av[1], flags):
            return True
    return False


def char_hook(sigma):
    """a character set of the Python-level pattern as a language of UTF-8 byte strings over the alphabet."""

    def hook(rs):
        rs = list(rs)
        parts = []
        for a, b in rs:
            # ASCII without the separators U+001C..U+001F: Python's \\s accepts them, Hyperscan's does not - texts
            # on which the two notions of whitespace disagree are outside the property's domain
            for lo, hi in ((a, min(b, 0x1B)), (max(a, 0x20), min(b, 127))):
                if lo <= hi:
                    parts.append(z3.Range(chr(lo), chr(hi)) if lo != hi else rex.lit(chr(lo)))
        for ch in sigma:
            if any(a <= ord(ch) <= b for a, b in rs):
                parts.append(rex.lit(ch.encode("utf8").decode("latin-1")))
        if not parts:
            return z3.Empty(rex.RS)
        return parts[0] if len(parts) == 1 else z3.Union(*parts)

    return hook


def job(i, budget=1):
    st = setup()
    e, x = st["exts"][i], st["expressions"][i]
    out = {"i": i, "verdict": None, "witness": None}
    try:
        py = sp.parse(e.regex, e.flags)
        g_py = group1(py)
        hs_src = (x if isinstance(x, bytes) else x.encode("utf8")).decode("latin-1")
        # PCRE (Hyperscan's syntax) has no {,n}: it is read as literal text
        pcre_literal = "{," in hs_src
        hs_src = re.sub(r"\{,(\d+)\}", lambda m_: "\\{," + m_.group(1) + "\\}", hs_src)
        hs = sp.parse(hs_src, (e.flags & re.I) | re.ASCII)
        g_hs = group1(hs)
        if g_py is None or g_hs is None:
            out["verdict"] = "unsupported:no group 1"
            return out
        if not pcre_literal and not multibyte_capable(g_py, py.state.flags):
            # no item of the Python-level core can match a non-ASCII character: both readings are over ASCII and
            # differ only in \d \s \w and case folding of non-ASCII characters, which the alphabet excludes
            out["verdict"] = "ascii-only"
            return out
        rex.CHAR_HOOK = char_hook(st["sigma"])
        try:
            L_py = rex.tr(g_py, py.state.flags)
        finally:
            rex.CHAR_HOOK = None
        rex.TABLE_EXTRA_FLAGS = re.ASCII
        try:
            L_hs = rex.tr(g_hs, hs.state.flags)
        finally:
            rex.TABLE_EXTRA_FLAGS = 0
        v, w = rex.solve_in(z3.Intersect(L_py, z3.Complement(L_hs)), timeout_ms=60000 * budget, seed=common.seed())
        out["verdict"] = v
        if v == "sat":
            raw = rex.z3_unescape(w)
            try:
                out["witness"] = raw.encode("latin-1").decode("utf8")
            except Exception:
                out["witness"] = None
                out["verdict"] = "unknown:witness not UTF-8 " + repr(raw)
    except rex.Unsupported as ex:
        out["verdict"] = f"unsupported:{ex}"
    except re.error as ex:
        out["verdict"] = f"unsupported:parse {ex}"
    return out


def job_retry(i):
    return job(i, budget=8)


def replay(i, token):
    """does the real Hyperscan tokenizer report the candidate the reference reports for extractor i?"""
    import eyecite.tokenizers as T

    st = setup()
    e = st["exts"][i]
    if "tok" not in _S:
        _S["tok"] = (T.Tokenizer(), T.HyperscanTokenizer())  # the Hyperscan database is compiled once
    ref, hs = _S["tok"]
    sig = lambda toks: sorted((type(t).__name__, t.start, t.end, str(t)) for t in toks if not isinstance(t, str))
    for text in (token, " " + token + " ", "x " + token + ".", token + " 5", "x " + token + " 5 y"):
        m = e.compiled_regex.search(text)
        if not m or not m.group(1).startswith(token):
            continue
        a, b = sig(ref.extract_tokens(text)), sig(hs.extract_tokens(text))
        missing = [t for t in a if t not in b]
        if missing:
            return text, missing
    return None, None


def fold(rep):
    st = setup()
    n = len(st["exts"])
    rep.bounds.append(f"(e) byte-level inclusion for group 1 of each of the {n} extractors; strings of any length over ASCII + {st['sigma']}")
    rep.stubs.append("Hyperscan's reading of a pattern (no UTF-8 mode): the UTF-8 bytes of the pattern decoded as latin-1, parsed with ASCII-only classes and case folding")
    res, err = common.pmap(job, list(range(n)), timeout=3000, chunk=16)
    if err:
        rep.inconc("byte-level inclusion queries: " + err)
        return
    again = [r["i"] for r in res if (r["verdict"] or "").startswith("unknown")]
    if again:
        res2, err2 = common.pmap(job_retry, again, procs=6, timeout=3000, chunk=1)
        if not err2:
            by = {r["i"]: r for r in res2}
            res = [by.get(r["i"], r) for r in res]
    cnt = {}
    for r in res:
        k = (r["verdict"] or "none").split(":")[0]
        cnt[k] = cnt.get(k, 0) + 1
    rep.sections["byte_level_core_inclusion"] = {"extractors": n, "verdicts": cnt, "alphabet": st["sigma"]}
    rep.queries += sum(1 for r in res if r["verdict"] in ("sat", "unsat"))
    import hashlib

    known = [k for k in common.known_findings("C14") if k.get("status") == "known" and k.get("id") == "C14-byte-level-core"]
    known_sha = set(known[0].get("extractor_sha1", [])) if known else set()
    n_known = n_new = 0
    shown = 0
    for r in res:
        v = r["verdict"] or "none"
        if v in ("unsat", "ascii-only"):
            rep.oblige()
            continue
        rep.oblige(ok=False)
        if v != "sat":
            rep.inconc(f"byte-level inclusion, extractor #{r['i']}: {v}")
            continue
        e = st["exts"][r["i"]]
        sha = hashlib.sha1(e.regex.encode("utf8")).hexdigest()[:12]
        rep.replays += 1
        text, missing = replay(r["i"], r["witness"])
        if sha in known_sha:
            n_known += 1
            continue
        if text is None:
            rep.spurious += 1
            rep.inconc(f"byte-level inclusion fails for {e.regex[:70]!r} (witness token {r['witness']!r}) but the real Hyperscan tokenizer reports the candidate on the texts tried")
            continue
        n_new += 1
        if shown < 4:
            rep.violation(f"HyperscanTokenizer misses a candidate the reference tokenizer reports: on {text!r} it lacks {missing[:2]} (pattern {e.regex[:80]!r}: its byte-level reading does not accept the UTF-8 bytes of {r['witness']!r})", {"kind": "byte_level", "extractor_sha1": sha, "regex": e.regex, "flags": int(e.flags), "token": r["witness"], "text": text})
        shown += 1
    rep.sections["byte_level_core_inclusion"].update({"failing_known": n_known, "failing_new": n_new})
    if n_known:
        rep.known_lines.append(f"KNOWN-FINDING: property=C14 {known[0]['what'][:300]} [{n_known} extractor patterns listed in known_findings.json, each witness replayed]")
