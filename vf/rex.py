"""E1 `rex`: CPython regular expressions -> z3 regular-expression terms.

The pattern is parsed by CPython's own `re._parser`; every character class,
category and case-insensitive literal is turned into code-point ranges by
running the *runtime's* `re` on all 0x110000 code points (cached per class), so
the character semantics are the interpreter's, not a re-statement.

Search semantics: texts are wrapped in two private-use sentinels BOS/EOS which
are excluded from the alphabet; `^` becomes BOS, `$` becomes EOS | "\\n" EOS.
Supported nodes: LITERAL, NOT_LITERAL, ANY, IN, BRANCH, SUBPATTERN,
MAX/MIN_REPEAT, AT_BEGINNING/AT_END (+ look-ahead through lang_after()).
Anything else raises Unsupported (-> inconclusive, never a verdict).
"""
import hashlib
import os
import pickle
import re
import re._constants as sc
import re._parser as sp
import sys

import z3

BOS, EOS = "\ue000", "\ue001"
MAXCP = 0x10FFFF
S = z3.StringSort()
RS = z3.ReSort(S)


class Unsupported(Exception):
    pass


def lit(s):
    return z3.Re(z3.StringVal(s))


def norm(rs):
    rs = sorted(rs)
    out = []
    for a, b in rs:
        if out and a <= out[-1][1] + 1:
            out[-1] = (out[-1][0], max(out[-1][1], b))
        else:
            out.append((a, b))
    return out


def compl(rs, sentinels=True):
    """complement within the alphabet (code points minus the two sentinels)."""
    out = []
    prev = 0
    for a, b in norm(rs):
        if a > prev:
            out.append((prev, a - 1))
        prev = b + 1
    if prev <= MAXCP:
        out.append((prev, MAXCP))
    if not sentinels:
        return out
    return minus_sentinels(out)


def minus_sentinels(rs):
    res = []
    for a, b in rs:
        if b < 0xE000 or a > 0xE001:
            res.append((a, b))
            continue
        if a < 0xE000:
            res.append((a, 0xDFFF))
        if b > 0xE001:
            res.append((0xE002, b))
    return res


Z3MAX = 0x2FFFF  # z3's character sort ends here; see alphabet_closure()
USED = {}


CHAR_HOOK = None  # when set: maps a code-point range set to a regex (used for byte-level encodings, see c14b)
TABLE_EXTRA_FLAGS = 0  # extra flags for the runtime tables (re.ASCII: PCRE semantics without UCP)


def ranges_to_re(rs):
    rs = list(rs)
    if CHAR_HOOK is not None:
        return CHAR_HOOK(rs)
    USED[tuple(rs)] = True
    rs = [(a, min(b, Z3MAX)) for a, b in rs if a <= Z3MAX]
    parts = [z3.Range(chr(a), chr(b)) if a != b else lit(chr(a)) for a, b in rs]
    if not parts:
        return z3.Empty(RS)
    return parts[0] if len(parts) == 1 else z3.Union(*parts)


def alphabet_closure():
    """z3 characters stop at U+2FFFF.  Every language built here depends on a character only
    through its membership in the range sets passed to ranges_to_re().  Returns the list of
    membership signatures that occur above U+2FFFF but for no character below it (empty list =
    every higher code point behaves exactly like some lower one, so inclusions proved over the
    lower alphabet carry over to all of Unicode by renaming)."""
    tabs = list(USED)
    cuts = {0, Z3MAX + 1, MAXCP + 1, 0xE000, 0xE002}
    for rs in tabs:
        for a, b in rs:
            cuts.add(a)
            cuts.add(b + 1)
    cuts = sorted(c for c in cuts if c <= MAXCP + 1)
    low, high = set(), {}
    for a, b in zip(cuts, cuts[1:]):
        if a in (0xE000, 0xE001):
            continue
        sig = tuple(in_ranges(a, rs) for rs in tabs)
        if a <= Z3MAX:
            low.add(sig)
        else:
            high.setdefault(sig, a)
    return [hex(cp) for sig, cp in high.items() if sig not in low]


def in_ranges(cp, rs):
    return any(a <= cp <= b for a, b in rs)


# ---------------------------------------------------------------- class tables from the runtime
_CACHE_DIR = os.path.join(os.path.dirname(os.path.dirname(os.path.abspath(__file__))), ".cache")
_tab = {}


def _cache_file():
    return os.path.join(_CACHE_DIR, f"classtab-{sys.version_info[0]}.{sys.version_info[1]}.{sys.version_info[2]}.pkl")


def _load_cache():
    global _tab
    if _tab:
        return
    try:
        with open(_cache_file(), "rb") as f:
            _tab = pickle.load(f)
    except Exception:
        _tab = {}


def save_cache():
    try:
        os.makedirs(_CACHE_DIR, exist_ok=True)
        tmp = _cache_file() + f".{os.getpid()}"
        with open(tmp, "wb") as f:
            pickle.dump(_tab, f)
        os.replace(tmp, _cache_file())
    except Exception:
        pass


def table(src, flags=0, module=re):
    """code-point ranges of single characters fully matched by pattern `src` (runtime's verdict)."""
    _load_cache()
    flags = int(flags) | TABLE_EXTRA_FLAGS
    k = (module.__name__, src, int(flags))
    if k not in _tab:
        c = module.compile(src, flags)
        fm = c.fullmatch
        rs = []
        start = None
        for cp in range(0x110000):
            m = fm(chr(cp)) is not None
            if m and start is None:
                start = cp
            elif not m and start is not None:
                rs.append((start, cp - 1))
                start = None
        if start is not None:
            rs.append((start, MAXCP))
        _tab[k] = rs
        _tab["__dirty__"] = True
    return _tab[k]


_CAT = {
    sc.CATEGORY_DIGIT: r"\d",
    sc.CATEGORY_SPACE: r"\s",
    sc.CATEGORY_WORD: r"\w",
    sc.CATEGORY_NOT_DIGIT: r"\D",
    sc.CATEGORY_NOT_SPACE: r"\S",
    sc.CATEGORY_NOT_WORD: r"\W",
}


def cls_src(av):
    out = []
    for op, a in av:
        if op == sc.NEGATE:
            out.append("^")
        elif op == sc.LITERAL:
            out.append(re.escape(chr(a)))
        elif op == sc.RANGE:
            out.append(re.escape(chr(a[0])) + "-" + re.escape(chr(a[1])))
        elif op == sc.CATEGORY:
            out.append(_CAT[a])
        else:
            raise Unsupported(f"class item {op}")
    return "[" + "".join(out) + "]"


def class_ranges(av, flags):
    """ranges for an IN node (sentinels removed)."""
    ci = flags & re.I
    simple = not ci and all(op in (sc.NEGATE, sc.LITERAL, sc.RANGE) for op, _ in av)
    if simple:
        neg = False
        rs = []
        for op, a in av:
            if op == sc.NEGATE:
                neg = True
            elif op == sc.LITERAL:
                rs.append((a, a))
            else:
                rs.append(tuple(a))
        rs = norm(rs)
        return compl(rs) if neg else minus_sentinels(rs)
    return minus_sentinels(table(cls_src(av), ci))


def literal_ranges(cp, flags):
    if flags & re.I:
        return minus_sentinels(table(re.escape(chr(cp)), re.I))
    return [(cp, cp)]


ANYC = None


def anychar():
    global ANYC
    if ANYC is None:
        ANYC = ranges_to_re(compl([]))
    return ANYC


def sigma_star():
    return z3.Star(anychar())


# ---------------------------------------------------------------- translation
def tr(p, flags):
    parts = []
    for op, av in p:
        parts.append(tr1(op, av, flags))
    if not parts:
        return lit("")
    return parts[0] if len(parts) == 1 else z3.Concat(*parts)


def tr1(op, av, flags):
    if op == sc.LITERAL:
        return ranges_to_re(literal_ranges(av, flags))
    if op == sc.NOT_LITERAL:
        return ranges_to_re(compl(literal_ranges(av, flags)))
    if op == sc.ANY:
        if flags & re.S:
            return anychar()
        return ranges_to_re(compl([(10, 10)]))
    if op == sc.IN:
        return ranges_to_re(class_ranges(av, flags))
    if op == sc.BRANCH:
        alts = [tr(b, flags) for b in av[1]]
        return z3.Union(*alts) if len(alts) > 1 else alts[0]
    if op == sc.SUBPATTERN:
        gid, add, dele, sub = av
        if add or dele:
            raise Unsupported("inline flags")
        return tr(sub, flags)
    if op in (sc.MAX_REPEAT, sc.MIN_REPEAT, getattr(sc, "POSSESSIVE_REPEAT", object())):
        if op not in (sc.MAX_REPEAT, sc.MIN_REPEAT):
            raise Unsupported("possessive repeat")
        lo, hi, sub = av
        r = tr(sub, flags)
        if hi == sc.MAXREPEAT:
            if lo == 0:
                return z3.Star(r)
            if lo == 1:
                return z3.Plus(r)
            return z3.Concat(z3.Loop(r, lo, lo), z3.Star(r))
        if (lo, hi) == (0, 1):
            return z3.Option(r)
        return z3.Loop(r, lo, hi)
    if op == sc.AT:
        if av == sc.AT_BEGINNING:
            return lit(BOS)
        if av == sc.AT_END:
            return z3.Union(lit(EOS), lit("\n" + EOS))
        raise Unsupported(f"anchor {av}")
    raise Unsupported(f"node {op}")


def parse(regex, flags=0):
    return sp.parse(regex, flags)


def translate(regex, flags=0):
    p = sp.parse(regex, flags)
    return tr(p, p.state.flags if hasattr(p, "state") else flags)


def anchors_ok(p, top=True):
    """structural check: `^` only as a leading alternative, `$` only as a trailing alternative
    of a top-level group (so that the sentinel encoding of search semantics is exact)."""
    items = list(p)
    for i, (op, av) in enumerate(items):
        if op == sc.AT:
            if not ((av == sc.AT_BEGINNING and i == 0) or (av == sc.AT_END and i == len(items) - 1)):
                return False
        elif op == sc.SUBPATTERN:
            sub = list(av[3])
            has = _has_at(sub)
            if has:
                if not (top and (i == 0 or i == len(items) - 1)):
                    return False
                if not anchors_ok(sub, top=True):
                    return False
        elif op == sc.BRANCH:
            for b in av[1]:
                b = list(b)
                if _has_at(b):
                    if not (len(b) == 1 and b[0][0] == sc.AT):
                        return False
                    if not top:
                        return False
        elif op in (sc.MAX_REPEAT, sc.MIN_REPEAT):
            if _has_at(list(av[2])):
                return False
    return True


def _has_at(p):
    for op, av in p:
        if op == sc.AT:
            return True
        if op == sc.SUBPATTERN and _has_at(av[3]):
            return True
        if op == sc.BRANCH and any(_has_at(b) for b in av[1]):
            return True
        if op in (sc.MAX_REPEAT, sc.MIN_REPEAT) and _has_at(av[2]):
            return True
        if op in (sc.ASSERT, sc.ASSERT_NOT) and _has_at(av[1]):
            return True
    return False


def branch_variants(seq, min_alts=3):
    """split a pattern into the union of the variants obtained by fixing one alternative of its
    widest BRANCH that is not under a repeat (L(seq) = union of L(variant))."""
    seq = list(seq)
    best = None

    def scan(items, path):
        nonlocal best
        for i, (op, av) in enumerate(items):
            if op == sc.BRANCH and len(av[1]) >= min_alts:
                if best is None or len(av[1]) > best[1]:
                    best = (path + [i], len(av[1]))
            elif op == sc.SUBPATTERN:
                scan(list(av[3]), path + [i])

    scan(seq, [])
    if best is None:
        return [seq]
    path = best[0]

    def rebuild(items, path, alt):
        items = list(items)
        i = path[0]
        op, av = items[i]
        if len(path) == 1:
            return items[:i] + list(av[1][alt]) + items[i + 1 :]
        gid, add, dele, sub = av
        items[i] = (op, (gid, add, dele, rebuild(list(sub), path[1:], alt)))
        return items

    return [rebuild(seq, path, a) for a in range(best[1])]


def wellformed():
    """texts: BOS sigma* EOS"""
    return z3.Concat(lit(BOS), sigma_star(), lit(EOS))


def search_lang(R):
    """wrapped texts on which a search for R succeeds."""
    full = z3.Full(RS)
    return z3.Intersect(wellformed(), z3.Concat(full, R, full))


def contains_any(lits):
    full = z3.Full(RS)
    u = [lit(s) for s in lits]
    return z3.Concat(full, u[0] if len(u) == 1 else z3.Union(*u), full)


# ---------------------------------------------------------------- look-ahead aware "match exists" language
def _has_assert(p):
    for op, av in p:
        if op in (sc.ASSERT, sc.ASSERT_NOT):
            return True
        if op == sc.SUBPATTERN and _has_assert(av[3]):
            return True
        if op in (sc.MAX_REPEAT, sc.MIN_REPEAT) and _has_assert(av[2]):
            return True
        if op == sc.BRANCH and any(_has_assert(b) for b in av[1]):
            return True
    return False


def lang_after(seq, K, flags, eot=None):
    """language of remaining texts t such that `seq` matches a prefix of t and the rest is in K
    (existence of a match only: no capture priorities).  eot = regex for 'end of text here'."""
    out = K
    for op, av in reversed(list(seq)):
        out = _after1(op, av, out, flags, eot)
    return out


def _after1(op, av, K, flags, eot):
    if op == sc.ASSERT:
        if av[0] != 1:
            raise Unsupported("look-behind")
        return z3.Intersect(K, lang_after(av[1], z3.Full(RS), flags, eot))
    if op == sc.ASSERT_NOT:
        if av[0] != 1:
            raise Unsupported("look-behind")
        return z3.Intersect(K, z3.Complement(lang_after(av[1], z3.Full(RS), flags, eot)))
    if op == sc.AT:
        if av == sc.AT_END:
            e = eot if eot is not None else z3.Union(lit(""), lit("\n"))
            return z3.Intersect(K, e)
        raise Unsupported(f"anchor {av} inside continuation")
    if op == sc.SUBPATTERN:
        return lang_after(av[3], K, flags, eot)
    if op == sc.BRANCH:
        return z3.Union(*[lang_after(b, K, flags, eot) for b in av[1]])
    if op in (sc.MAX_REPEAT, sc.MIN_REPEAT) and _has_assert(av[2]):
        lo, hi, sub = av
        if hi == sc.MAXREPEAT:
            raise Unsupported("unbounded repeat over an assertion")

        def rep(k):
            o = K
            for _ in range(k):
                o = lang_after(sub, o, flags, eot)
            return o

        return z3.Union(*[rep(k) for k in range(lo, hi + 1)]) if hi > lo else rep(lo)
    return z3.Concat(tr1(op, av, flags), K)


# ---------------------------------------------------------------- queries
def solve_in(regex_term, timeout_ms=60000, seed=0):
    """is the language non-empty?  returns (verdict, witness)."""
    w = z3.String("w")
    sol = z3.Solver()
    sol.set("timeout", timeout_ms)
    sol.set("random_seed", seed % (2**31))
    sol.add(z3.InRe(w, regex_term))
    r = sol.check()
    if r == z3.sat:
        return "sat", sol.model()[w].as_string() if sol.model()[w] is not None else ""
    if r == z3.unsat:
        return "unsat", None
    return "unknown", None


def z3_unescape(s):
    """z3's as_string() escapes non-ASCII as \\u{...}."""
    return re.sub(r"\\u\{([0-9a-fA-F]+)\}", lambda m: chr(int(m.group(1), 16)), s)


def strip_sentinels(w):
    w = z3_unescape(w)
    return w.replace(BOS, "").replace(EOS, "")


# ---------------------------------------------------------------- image maps (str.lower etc.)
def preimage_contains(word, image):
    b = preimage_body(word, image)
    full = z3.Full(RS)
    return z3.Concat(full, b, full)


def preimage_body(word, image):
    """regex for { t : word occurs in g(t) } where g maps each character c to the string image[c]
    (characters not in `image` map to themselves).  Exact for the case that every multi-character
    image that shares a character with `word` is handled at the word's ends or wholly inside."""
    full = z3.Full(RS)
    # inverse for single-character images
    inv = {}
    multi = {}
    for cp, img in image.items():
        if len(img) == 1:
            inv.setdefault(img, []).append(cp)
        elif len(img) > 1:
            multi[cp] = img
        # empty image: character vanishes (handled below as optional filler)
    vanish = [cp for cp, img in image.items() if img == ""]
    for img in multi.values():
        if img in word and img != word:
            raise Unsupported(f"multi-character image {img!r} inside filter word {word!r}")
    moved = set(image)

    def cls(ch):
        rs = [(cp, cp) for cp in inv.get(ch, [])]
        if ord(ch) not in moved:
            rs.append((ord(ch), ord(ch)))
        return norm(rs)

    filler = z3.Star(ranges_to_re(norm([(cp, cp) for cp in vanish]))) if vanish else None

    def seq(chars):
        parts = []
        run = ""
        for i, ch in enumerate(chars):
            c = cls(ch)
            if not c:
                return None
            if i and filler is not None:
                if run:
                    parts.append(lit(run))
                    run = ""
                parts.append(filler)
            if c == [(ord(ch), ord(ch))]:
                run += ch  # keep plain literals together: one string constant is much cheaper for z3
                continue
            if run:
                parts.append(lit(run))
                run = ""
            parts.append(ranges_to_re(c))
        if run:
            parts.append(lit(run))
        if not parts:
            return lit("")
        return parts[0] if len(parts) == 1 else z3.Concat(*parts)

    alts = []
    a = seq(word)
    if a is not None:
        alts.append(a)
    # occurrences that use part of a multi-character image: enumerate decompositions
    # word = suffix(img1)? . singles* . prefix(img2)?   and   word inside one image
    n = len(word)
    starts = [(0, None)]
    for cp, img in multi.items():
        if word in img:
            alts.append(lit(chr(cp)))
        for k in range(1, len(img)):
            if word.startswith(img[-k:]) and k < n:
                starts.append((k, cp))
    for k0, cp0 in starts:
        ends = [(n, None)]
        for cp, img in multi.items():
            for k in range(1, len(img) + 1):
                if n - k >= k0 and word.endswith(img[:k]) and (k < len(img) or True):
                    ends.append((n - k, cp))
        for k1, cp1 in ends:
            if cp0 is None and cp1 is None:
                continue
            if k1 < k0:
                continue
            mid = seq(word[k0:k1])
            if mid is None:
                continue
            parts = []
            if cp0 is not None:
                parts.append(lit(chr(cp0)))
            parts.append(mid)
            if cp1 is not None:
                parts.append(lit(chr(cp1)))
            alts.append(z3.Concat(*parts) if len(parts) > 1 else parts[0])
    if not alts:
        return z3.Empty(RS)
    return alts[0] if len(alts) == 1 else z3.Union(*alts)
