"""C03 — citations come back in document order, unique and non-overlapping.

Symbolically executes the real filter_citations / overlapping_citations (and, for the
remove_ambiguous clause of C18 and the markup clause of C19, the tail of get_citations)
on M citation objects of symbolic kind with symbolic span / full span.

Input envelope (each item is justified by another check, named in the evidence):
  * non-reference citations are listed in token order with pairwise disjoint spans
    (C12: tokens are disjoint and ordered; C02 lemma: a span never reaches the next special token);
  * 0 <= full start <= span start < span end <= full end (C02);
  * a reference citation has span == full span and starts at or after the span end of a full case
    citation of the list (extract_pincited_reference_citations / find_reference_citations_from_markup
    only search the text after the citation; asserted in C19).
"""
import z3

from vf import common, symex
from vf.symex import SInt, lift_int, mval

KINDS = ["full_case", "short", "id", "ref"]


class H(common.Harness):
    def __init__(self, params):
        super().__init__(params)
        import eyecite.helpers as Hh
        import eyecite.models as M

        self.Hh, self.M = Hh, M
        self.Mn = params["M"]
        self.mode = params.get("mode", "once")  # once | twostep
        self.interp.stubs[Hh.logger.warning] = lambda *a, **k: None

    def mk(self, i, cs, state):
        M, eng = self.M, self.eng
        allowed = KINDS if any(isinstance(c, M.FullCaseCitation) for c in cs) else KINDS[:3]
        fixk = self.params.get("fixk") or {}
        if str(i) in fixk:
            allowed = [fixk[str(i)]]
        kind = allowed[eng.choose([z3.Int(f"k{i}") == j for j in range(len(allowed))])]
        s, e, fs, fe = (z3.Int(f"{nm}{i}") for nm in ("s", "e", "fs", "fe"))
        tok = M.CitationToken("1 X 1", 0, 5, groups={"volume": "1", "reporter": "X", "page": "1"})
        if kind == "full_case":
            c = M.FullCaseCitation(tok, i)
        elif kind == "short":
            c = M.ShortCaseCitation(tok, i)
        elif kind == "id":
            c = M.IdCitation(M.IdToken("id.", 0, 3), i)
        else:
            c = M.ReferenceCitation(M.CaseReferenceToken("Foo", 0, 3), i)
        if kind != "ref":
            eng.add(0 <= fs, fs <= s, s < e, e <= fe, s >= state["prev_end"])
            state["prev_end"] = e
            if kind != "full_case":
                # short / id (/ supra): the full span is the antecedent words directly before the token plus the
                # span itself; match_on_tokens(strings_only=True) never crosses another special token
                eng.add(fe == e)
                for kj, sj, ej, fsj, fej in self.sym:
                    if kj != "ref":
                        eng.add(z3.Or(ej <= fs, sj >= e))
            for kj, sj, ej, fsj, fej in self.sym:
                if kj in ("short", "id"):
                    eng.add(z3.Or(e <= fsj, s >= ej))
                if kj == "full_case" and kind == "full_case":
                    # full-span starts of full case citations are monotone in document order (lemma
                    # C03lemma:mono, discharged by the extraction harness on two citations sharing a window)
                    eng.add(fsj <= fs)
                if kj == "ref":
                    eng.add(z3.Not(z3.And(sj == s, ej == e)))
        else:
            fulls = [cj for cj in cs if isinstance(cj, M.FullCaseCitation)]
            eng.add(0 <= s, s < e, fs == s, fe == e, z3.Or(*[s >= lift_int(cj.span_end) for cj in fulls]))
            # a reference is 'Name at 123'; it is never character-for-character another citation's core text
            for kj, sj, ej, fsj, fej in self.sym:
                if kj != "ref":
                    eng.add(z3.Not(z3.And(sj == s, ej == e)))
        c.span_start, c.span_end, c.full_span_start, c.full_span_end = SInt(s), SInt(e), SInt(fs), SInt(fe)
        self.sym.append((kind, s, e, fs, fe))
        return c

    def run(self):
        M, eng = self.M, self.eng
        self.sym = []
        cs = []
        state = {"prev_end": z3.IntVal(0)}
        n = self.Mn if self.params.get("n_exact") else 1 + eng.choose([z3.Int("n") == k for k in range(1, self.Mn + 1)])
        for i in range(n):
            cs.append(self.mk(i, cs, state))
        self.cs = cs
        call = lambda xs: self.interp.call(self.Hh.filter_citations, (list(xs),), {})
        out1 = call(cs)
        out2 = call(out1)
        return cs, out1, out2

    def witness(self, m):
        w = {"citations": [(k, mval(m, s), mval(m, e), mval(m, fs), mval(m, fe)) for k, s, e, fs, fe in self.sym], "mode": self.mode}
        w["guesses"] = {i: bool(getattr(c, "edition_guess", None)) for i, c in enumerate(getattr(self, "cs", []))}
        return w

    def describe(self, kind, out):
        m = self.eng.path_model()
        return {"path_model": self.witness(m) if m is not None else None}

    def props(self, cs, out):
        M = self.M
        spans = [(lift_int(c.span_start), lift_int(c.span_end)) for c in out]
        order = z3.And(*[a[0] < b[0] for a, b in zip(spans, spans[1:])]) if len(spans) > 1 else z3.BoolVal(True)
        nolap = z3.And(*[z3.Or(spans[i][1] <= spans[j][0], spans[j][1] <= spans[i][0]) for i in range(len(spans)) for j in range(i + 1, len(spans))]) if len(spans) > 1 else z3.BoolVal(True)
        keep = all(any(o is c for o in out) for c in cs if not isinstance(c, M.ReferenceCitation))
        fresh = all(any(o is c for c in cs) for o in out) and len({id(o) for o in out}) == len(out)
        return order, nolap, keep and fresh

    def judge(self, kind, out):
        if kind == "exc":
            return [self.check("C03:no_exception:" + type(out).__name__, False, self.witness)]
        cs, out1, out2 = out
        order, nolap, keep = self.props(cs, out1)
        idem = len(out1) == len(out2) and all(a is b for a, b in zip(out1, out2))
        return [
            self.check("C03:increasing_span_order", order, self.witness),
            self.check("C03:no_overlapping_or_identical_spans", nolap, self.witness),
            self.check("C03:keeps_every_nonreference_and_invents_nothing", z3.BoolVal(keep), self.witness),
            self.check("C03:filter_idempotent", z3.BoolVal(idem), self.witness),
        ]


class HTail(H):
    """the body of get_citations after tokenisation: dispatch, reference collection, filter, remove_ambiguous.
    The per-token extractors are stubbed to return prepared citation objects (same envelope as H); the
    function is run three times on the same objects: default, remove_ambiguous=True, and without references."""

    def __init__(self, params):
        super().__init__(params)
        import eyecite.find as F

        self.F = F
        it = self.interp
        for name in ("_extract_shortform_citation", "_extract_full_citation", "_extract_id_citation", "_extract_supra_citation"):
            it.stubs[getattr(F, name)] = lambda words, i: self.prepared[i]
        it.stubs[F.extract_reference_citations] = lambda citation, document: list(self.refs_for.get(id(citation), [])) if self.with_refs else []
        it.stubs[F.Document] = lambda **kw: self.doc
        # parallel-citation detection is recorded, not executed: which (citation, predecessor) pairs are compared
        # must not depend on whether reference citations were collected
        import eyecite.models as M

        it.stubs[M.FullCaseCitation.is_parallel_citation] = lambda slf, pre: self.par_log.append((id(slf), id(pre)))

    def run(self):
        M, eng = self.M, self.eng
        self.sym = []
        cs = []
        state = {"prev_end": z3.IntVal(0)}
        n = 1 + eng.choose([z3.Int("n") == k for k in range(1, self.Mn + 1)])
        self.prepared, self.refs_for, tokens = {}, {}, []
        idx = 0
        for i in range(n):
            c = self.mk(i, cs, state)
            cs.append(c)
            if isinstance(c, M.ReferenceCitation):
                # attach to the latest full case citation (extract_reference_citations is called right after it)
                owner = [x for x in cs if isinstance(x, M.FullCaseCitation)][-1]
                self.refs_for.setdefault(id(owner), []).append(c)
                continue
            if isinstance(c, M.FullCaseCitation):
                tok = M.CitationToken("1 X 1", 0, 5, groups={"volume": "1", "reporter": "X", "page": "1"})
                g = eng.choose([z3.Bool(f"guess{i}"), z3.Not(z3.Bool(f"guess{i}"))]) == 0
                c.edition_guess = object() if g else None
            elif isinstance(c, M.ShortCaseCitation):
                tok = M.CitationToken("1 X at 1", 0, 5, groups={"volume": "1", "reporter": "X", "page": "1"}, short=True)
                g = eng.choose([z3.Bool(f"guess{i}"), z3.Not(z3.Bool(f"guess{i}"))]) == 0
                c.edition_guess = object() if g else None
            else:
                tok = M.IdToken("id.", 0, 3)
            tokens.append((idx, tok))
            self.prepared[idx] = c
            idx += 1

        class Doc:
            pass

        self.doc = Doc()
        self.doc.citation_tokens = tokens
        self.doc.words = []
        self.doc.plain_text = "x"
        self.doc.markup_text = ""
        self.doc.tokenize = lambda tokenizer=None: None
        self.cs = cs
        self.with_refs = True
        self.par_log = []
        out_default = self.interp.call(self.F.get_citations, ("some text",), {})
        log_refs = list(self.par_log)
        out_unamb = self.interp.call(self.F.get_citations, ("some text",), {"remove_ambiguous": True})
        self.with_refs = False
        self.par_log = []
        out_norefs = self.interp.call(self.F.get_citations, ("some text",), {})
        self.par_same = log_refs == list(self.par_log)
        return cs, out_default, out_unamb, out_norefs

    def judge(self, kind, out):
        if kind == "exc":
            return [self.check("C03:no_exception:" + type(out).__name__, False, self.witness)]
        M = self.M
        cs, d, u, nr = out
        order, nolap, keep = self.props(cs, d)
        want_u = [c for c in d if not isinstance(c, M.ResourceCitation) or c.edition_guess]
        ok_u = len(want_u) == len(u) and all(a is b for a, b in zip(want_u, u))
        nonref_d = [c for c in d if not isinstance(c, M.ReferenceCitation)]
        ok_nr = len(nonref_d) == len(nr) and all(a is b for a, b in zip(nonref_d, nr))
        return [
            self.check("C03:increasing_span_order", order, self.witness),
            self.check("C03:no_overlapping_or_identical_spans", nolap, self.witness),
            self.check("C03:keeps_every_nonreference_and_invents_nothing", z3.BoolVal(keep), self.witness),
            self.check("C18:remove_ambiguous_returns_exactly_the_unambiguous_of_the_default_run", z3.BoolVal(ok_u), self.witness),
            self.check("C19:references_leave_the_other_citations_unchanged", z3.BoolVal(ok_nr and self.par_same), self.witness),
        ]


def make(params):
    return HTail(params) if params.get("tail") else H(params)


def fold_into_c18(rep, findings):
    """C18 clause (e): run the get_citations tail harness and report its C18 clause."""
    quick = rep.tier == "quick"
    agg = common.explore_split("vf.harness.c03", {"M": 3 if quick else 4, "tail": True}, depth=4)
    rep.merge_explore("get_citations_tail", agg)
    cl = "C18:remove_ambiguous_returns_exactly_the_unambiguous_of_the_default_run"
    n_ob = sum(v for k, v in agg["verdicts"].items() if k.startswith(cl))
    n_ok = agg["verdicts"].get(cl + ":valid", 0)
    rep.oblige(n_ok)
    rep.oblige(n_ob - n_ok, ok=False)
    for f in agg["findings"]:
        if f["clause"] != cl:
            continue
        if f["verdict"] != "cex":
            rep.inconc(f"tail/{cl}: solver verdict {f['verdict']}")
            continue
        ok, detail = replay_tail(f["witness"])
        rep.replays += 1
        if not ok:
            rep.violation(f"get_citations tail on prepared citations {f['witness']['citations']}: remove_ambiguous result {detail}", {"kind": "tail", "witness": f["witness"]})
            break
        rep.spurious += 1
        rep.inconc(f"tail/{cl}: model did not reproduce: {f['witness']}")


def replay_tail(w):
    """replay a tail model on the real get_citations by patching the per-token extractors (the public entry
    point is executed natively; what the extractors return is the model)."""
    import eyecite.find as F
    import eyecite.models as M

    cs = build_concrete(w)
    guesses = w.get("guesses", {})
    prepared, refs_for, tokens = {}, {}, []
    idx = 0
    for i, c in enumerate(cs):
        if isinstance(c, M.ReferenceCitation):
            owner = [x for x in cs[:i] if isinstance(x, M.FullCaseCitation)][-1]
            refs_for.setdefault(id(owner), []).append(c)
            continue
        if isinstance(c, M.ResourceCitation):
            c.edition_guess = object() if guesses.get(str(i), guesses.get(i, False)) else None
            tok = M.CitationToken("1 X 1", 0, 5, groups={"volume": "1", "reporter": "X", "page": "1"}, short=isinstance(c, M.ShortCaseCitation))
        else:
            tok = M.IdToken("id.", 0, 3)
        tokens.append((idx, tok))
        prepared[idx] = c
        idx += 1

    class Doc:
        def __init__(self, **kw):
            self.citation_tokens, self.words, self.plain_text, self.markup_text = tokens, [], "x", ""

        def tokenize(self, tokenizer=None):
            pass

    saved = {k: getattr(F, k) for k in ("_extract_shortform_citation", "_extract_full_citation", "_extract_id_citation", "_extract_supra_citation", "extract_reference_citations", "Document")}
    try:
        for k in list(saved)[:4]:
            setattr(F, k, lambda words, i: prepared[i])
        F.extract_reference_citations = lambda citation, document: list(refs_for.get(id(citation), []))
        F.Document = Doc
        import logging

        logging.getLogger("eyecite.helpers").setLevel(logging.ERROR)
        d = F.get_citations("some text")
        u = F.get_citations("some text", remove_ambiguous=True)
    finally:
        for k, v in saved.items():
            setattr(F, k, v)
    want = [c for c in d if not isinstance(c, M.ResourceCitation) or c.edition_guess]
    ok = [id(x) for x in want] == [id(x) for x in u]
    return ok, {"default": [cs.index(x) for x in d], "remove_ambiguous": [cs.index(x) for x in u], "expected": [cs.index(x) for x in want]}


# ---------------------------------------------------------------- replay
def build_concrete(w):
    import eyecite.models as M

    out = []
    for i, (kind, s, e, fs, fe) in enumerate(w["citations"]):
        tok = M.CitationToken("1 X 1", s, e, groups={"volume": "1", "reporter": "X", "page": str(i + 1)})
        if kind == "full_case":
            c = M.FullCaseCitation(tok, i)
        elif kind == "short":
            c = M.ShortCaseCitation(tok, i)
        elif kind == "id":
            c = M.IdCitation(M.IdToken("id.", s, e), i)
        else:
            c = M.ReferenceCitation(M.CaseReferenceToken("Foo at 1", s, e), i)
        c.span_start, c.span_end, c.full_span_start, c.full_span_end = s, e, fs, fe
        out.append(c)
    return out


def concrete_oracle(cs):
    import logging

    import eyecite.helpers as Hh
    import eyecite.models as M

    logging.getLogger("eyecite.helpers").setLevel(logging.ERROR)
    try:
        out1 = Hh.filter_citations(list(cs))
        out2 = Hh.filter_citations(list(out1))
    except Exception as ex:
        return ["C03:no_exception:" + type(ex).__name__], None
    bad = []
    sp = [c.span() for c in out1]
    if any(a[0] >= b[0] for a, b in zip(sp, sp[1:])):
        bad.append("C03:increasing_span_order")
    if any(max(sp[i][0], sp[j][0]) < min(sp[i][1], sp[j][1]) or sp[i] == sp[j] for i in range(len(sp)) for j in range(i + 1, len(sp))):
        bad.append("C03:no_overlapping_or_identical_spans")
    if not all(any(o is c for o in out1) for c in cs if not isinstance(c, M.ReferenceCitation)) or not all(any(o is c for c in cs) for o in out1):
        bad.append("C03:keeps_every_nonreference_and_invents_nothing")
    if [id(x) for x in out1] != [id(x) for x in out2]:
        bad.append("C03:filter_idempotent")
    return bad, [cs.index(o) for o in out1]


REGRESSION_TEXTS = [
    # fixed: e1d1b05
    "A v. B, 550 U.S. at 556, 127 S.Ct. 1955",
    "Foo v. Bar, 1 U.S. 1 (1990), 2 S. Ct. 3, 4 L. Ed. 5. Id. at 6; Bar, supra, at 7.",
    # fixed: 268c40b
    "Foo v. Bar, 1 U.S. 1, 1 U.S. at 5, Bar at 2 S. Ct. 3.",
]


def text_oracle(text, **kw):
    from eyecite import get_citations

    cs = get_citations(text, **kw)
    sp = [c.span() for c in cs]
    bad = []
    if any(a[0] >= b[0] for a, b in zip(sp, sp[1:])):
        bad.append("C03:increasing_span_order")
    if any(max(sp[i][0], sp[j][0]) < min(sp[i][1], sp[j][1]) or sp[i] == sp[j] for i in range(len(sp)) for j in range(i + 1, len(sp))):
        bad.append("C03:no_overlapping_or_identical_spans")
    return bad, [(type(c).__name__, c.span()) for c in cs]


def check(rep):
    quick = rep.tier == "quick"
    M = 3 if quick else 4
    rep.bounds.append(f"<= {M} citations over the kinds {KINDS} with symbolic span and full span (unbounded offsets), filter applied once and twice")
    rep.outside.append("more citations; reference citations that start before the end of every full case citation of the list; non-reference citations with overlapping spans (excluded by C12 + the C02 span lemma)")
    rep.assumptions += [
        "non-reference citations: pairwise disjoint spans in list order (from C12 and the C02 lemma 'span end <= start of the next special token')",
        "0 <= full start <= span start < span end <= full end (C02)",
        "references: span == full span, start >= span end of some full case citation in the list (C19 clause b); a reference's span is never identical to a non-reference span",
        "short/id citations: full span = antecedent words + span, crossing no other special token (match_on_tokens strings_only)",
        "full-span starts of full case citations are monotone in document order (lemma C03lemma:mono, discharged in this run by the extraction harness: add_defendant + add_pre_citation on two citations with <= 1/2 pieces before and between them)",
    ]
    agg = common.explore_split("vf.harness.c03", {"M": M}, depth=4)
    rep.merge_explore("filter", agg)
    n_ob = sum(agg["verdicts"].values())
    n_ok = sum(v for k, v in agg["verdicts"].items() if k.endswith(":valid"))
    rep.oblige(n_ok)
    rep.oblige(n_ob - n_ok, ok=False)
    rep.distinct = agg["paths"]
    if quick:
        # one slice of the next size: exactly 4 citations, the first a full case citation and the last a reference
        # (the smallest shape on which a reference can hide behind a parallel citation's full span: fix 268c40b)
        rep.bounds.append("plus the slice of 4-citation lists that start with a full case citation and end with a reference")
        aggx = common.explore_split("vf.harness.c03", {"M": 4, "n_exact": True, "fixk": {"0": "full_case", "3": "ref"}}, depth=4)
        rep.merge_explore("filter_4_slice", aggx)
        n_ob = sum(aggx["verdicts"].values())
        n_ok = sum(v for k, v in aggx["verdicts"].items() if k.endswith(":valid"))
        rep.oblige(n_ok)
        rep.oblige(n_ob - n_ok, ok=False)
        agg["findings"] = agg["findings"] + aggx["findings"]
    # the same clauses on the result of get_citations' own tail (dispatch + reference collection + filter)
    agg2 = common.explore_split("vf.harness.c03", {"M": M, "tail": True}, depth=4)
    rep.merge_explore("get_citations_tail", agg2)
    n_ob = sum(v for k, v in agg2["verdicts"].items() if k.startswith("C03"))
    n_ok = sum(v for k, v in agg2["verdicts"].items() if k.startswith("C03") and k.endswith(":valid"))
    rep.oblige(n_ok)
    rep.oblige(n_ob - n_ok, ok=False)
    seen = set()
    for f in agg["findings"] + [f for f in agg2["findings"] if f["clause"].startswith("C03")]:
        if f["verdict"] != "cex":
            rep.inconc(f"{f['clause']}: solver verdict {f['verdict']}")
            continue
        w = f["witness"]
        rep.replays += 1
        cs = build_concrete(w)
        bad, order = concrete_oracle(cs)
        if bad:
            key = (tuple(bad), tuple(c[0] for c in w["citations"]))
            if key in seen:
                continue
            seen.add(key)
            rep.violation(f"filter_citations on {w['citations']} (kind, span start, span end, full start, full end) -> order {order}: {bad}", {"kind": "model", "witness": w})
        else:
            rep.spurious += 1
            rep.inconc(f"{f['clause']}: model did not reproduce: {w}")
    from vf.harness import c02

    c02.fold_into_c03(rep)
    for t in REGRESSION_TEXTS:
        rep.replays += 1
        bad, got = text_oracle(t)
        if bad:
            rep.violation(f"get_citations({t!r}) -> {got}: {bad}", {"kind": "text", "text": t})
    return rep.finish(
        explanation=f"Path-exhaustive symbolic execution of the real filter_citations/overlapping_citations source on <= {M} citations with symbolic spans under the stated input envelope; per path: strictly increasing span order, pairwise disjoint spans, all non-reference citations kept, idempotence - z3 validity queries; counter-models are rebuilt as real citation objects and replayed on the real filter.",
        technique="symbolic execution of the Python source (AST interpreter) + z3 validity queries per path",
    )


def replay_file(path):
    import json

    r = json.load(open(path))["replay"]
    if r["kind"] == "model":
        bad, order = concrete_oracle(build_concrete(r["witness"]))
    else:
        bad, order = text_oracle(r["text"])
    print(order, bad)
    return 1 if bad else 0
