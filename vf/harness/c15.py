"""C15 — extraction is a pure function of its input (partial: the hash-randomisation clause).

Hash randomisation reaches eyecite only through the iteration order of sets.  With `set` replaced by a
model whose iteration order is an arbitrary (symbolic) permutation:
  (a) AhocorasickTokenizer.get_extractors -> Tokenizer.extract_tokens -> Tokenizer.tokenize on K abstract
      extractors that produce candidate tokens with symbolic offsets (ties included): the token stream must
      be the same for the identity order and for every other order;
  (b) CitationToken.merge -> token_is_from_nominative_reporter / ResourceCitation.__hash__: the decision and
      the hash input must not depend on the order in which merge() de-duplicates editions.
Replay: the real get_citations in fresh processes with different PYTHONHASHSEED values.
Thread schedules and cross-call history are NOT decided by this technique (stated in the evidence).
"""
import json
import os
import subprocess
import sys

import z3

from vf import absval, common, symex
from vf.symex import SInt, TStr, lift_int, mval


class PermSet:
    """a set whose iteration order is an arbitrary permutation (one fork per position), unless `fixed`."""

    def __init__(self, h, items=()):
        self.h = h
        self.items = []
        for x in items:
            self.add(x)

    def add(self, x):
        if not any(y is x or y == x for y in self.items):
            self.items.append(x)

    def update(self, xs):
        for x in xs:
            self.add(x)

    def _has(self, xs, x):
        return any(y is x or y == x for y in xs)

    def discard(self, x):
        self.items = [y for y in self.items if not (y is x or y == x)]

    def remove(self, x):
        if x not in self:
            raise KeyError(x)
        self.discard(x)

    def clear(self):
        self.items = []

    def copy(self):
        return PermSet(self.h, list(self.items))

    def intersection_update(self, *others):
        for o in others:
            o = list(o.items) if isinstance(o, PermSet) else list(o)
            self.items = [y for y in self.items if self._has(o, y)]

    def difference_update(self, *others):
        for o in others:
            o = list(o.items) if isinstance(o, PermSet) else list(o)
            self.items = [y for y in self.items if not self._has(o, y)]

    def union(self, *others):
        r = self.copy()
        for o in others:
            r.update(o.items if isinstance(o, PermSet) else o)
        return r

    def intersection(self, *others):
        r = self.copy()
        r.intersection_update(*others)
        return r

    def difference(self, *others):
        r = self.copy()
        r.difference_update(*others)
        return r

    __or__ = union
    __and__ = intersection
    __sub__ = difference

    def __ior__(self, o):
        self.update(o.items if isinstance(o, PermSet) else o)
        return self

    def __len__(self):
        return len(self.items)

    def __bool__(self):
        return bool(self.items)

    def __contains__(self, x):
        return any(y is x or y == x for y in self.items)

    def __iter__(self):
        if self.h.identity_order:
            return iter(list(self.items))
        rest = list(self.items)
        out = []
        while len(rest) > 1:
            self.h.nperm += 1
            k = self.h.eng.choose([z3.Int(f"perm{self.h.nperm}") == j for j in range(len(rest))])
            out.append(rest.pop(k))
        out.extend(rest)
        return iter(out)


class Txt(TStr):
    """the document text as get_extractors sees it: translate()/lower() keep positions (content is opaque)."""

    __slots__ = ()

    def translate(self, table):
        return self

    def lower(self):
        return self


class AbsExtractor:
    def __init__(self, name, strings, flags, token):
        self.name, self.strings, self.flags, self.token = name, strings, flags, token
        self.regex = name

    def get_matches(self, text):
        return [self.token]

    def get_token(self, m, offset=0):
        return m

    def __repr__(self):
        return f"AbsExtractor({self.name})"


class WordAut:
    """pyahocorasick contract with the occurrence of every added word fixed to true."""

    def __init__(self):
        self.words = []

    def add_word(self, w, value):
        for i, (x, v) in enumerate(self.words):
            if x == w:
                self.words[i] = (w, value)
                return False
        self.words.append((w, value))
        return True

    def make_automaton(self):
        pass

    def __len__(self):
        return len(self.words)

    def iter(self, text):
        if not self.words:
            raise AttributeError("Not an Aho-Corasick automaton yet")
        return [(0, v) for w, v in self.words]


class StubAut:
    def __init__(self, entries):
        self.entries = entries

    def __len__(self):
        return len(self.entries)

    def iter(self, text):
        return [(0, exts) for occurs, exts in self.entries if occurs]


class HTok(common.Harness):
    def __init__(self, params):
        super().__init__(params)
        import eyecite.models as M
        import eyecite.tokenizers as T

        self.M, self.T = M, T
        self.K = params["K"]
        self.n = z3.Int("n")
        self.eng.assume(self.n >= 0)
        self.interp.stubs[set] = lambda items=(): PermSet(self, items)
        self.interp.stubs[T.Tokenizer.append_text] = lambda tokens, s: tokens.append(s)

    def run(self):
        from vf.harness.c12 import KINDS, build_token

        eng, T = self.eng, self.T
        self.nperm = 0
        exts, self.sym = [], []
        kinds = self.params.get("kinds") or ["supra", "section", "cite_us", "stop_v", "id"]
        import eyecite.models as M

        for i in range(self.K):
            s, e = z3.Int(f"s{i}"), z3.Int(f"e{i}")
            eng.add(0 <= s, s < e, e <= self.n)
            k = kinds[eng.choose([z3.Int(f"k{i}") == j for j in range(len(kinds))])]
            data = TStr.sub(s, e, self.n)
            if k == "supra":
                tok = M.SupraToken(data, SInt(s), SInt(e), groups={})
            else:
                tok = build_token(k, data, SInt(s), SInt(e))
            filt = eng.choose([z3.Int(f"filt{i}") == j for j in range(3)])  # unfiltered / case-sensitive / case-insensitive
            exts.append((AbsExtractor(f"E{i}", [] if filt == 0 else ["w"], 0 if filt < 2 else 2, tok), filt))
            self.sym.append((k, s, e, filt))
        # the tokenizer is built by the real __post_init__ (sets are PermSets, automata report every added word)
        import ahocorasick

        self.interp.stubs[ahocorasick.Automaton] = lambda *a, **k: WordAut()
        self.identity_order = True
        tk = self.interp.instantiate(T.AhocorasickTokenizer, (), {"extractors": [e for e, _ in exts]})
        text = Txt([("sub", z3.IntVal(0), self.n)], self.n)
        # the method the instance would run (an override in the subclass included)
        tokenize = type(tk).tokenize

        def content(v):
            if isinstance(v, PermSet):
                return ("set", tuple(sorted(id(x) for x in v.items)))
            if isinstance(v, WordAut):
                return ("aut", tuple((w, tuple(id(x) for x in es)) for w, es in v.words))
            if isinstance(v, (set, frozenset)):
                return ("set", tuple(sorted(id(x) for x in v)))
            if isinstance(v, (list, tuple)):
                return ("seq", tuple(id(x) for x in v))
            if isinstance(v, dict):
                return ("map", tuple(sorted((repr(k), id(x)) for k, x in v.items())))
            return None

        # attribute names, the objects they hold, and the contents of the containers among them
        snap = lambda: sorted((k, id(v), content(v)) for k, v in vars(tk).items())
        before = snap()
        self.identity_order = True
        ref = self.interp.call(tokenize, (tk, text), {})
        self.state_unchanged = before == snap()
        self.identity_order = False
        got = self.interp.call(tokenize, (tk, text), {})
        return ref, got

    def witness(self, m):
        return {"n": mval(m, self.n), "tokens": [(k, mval(m, s), mval(m, e), f) for k, s, e, f in self.sym]}

    def describe(self, kind, out):
        m = self.eng.path_model()
        return self.witness(m) if m is not None else {}

    def judge(self, kind, out):
        if kind == "exc":
            return [self.check("C15:tokenize:no_exception:" + type(out).__name__, False, self.witness)]
        (a_all, a_ct), (b_all, b_ct) = out
        same = len(a_ct) == len(b_ct) and all(x[1] is y[1] and x[0] == y[0] for x, y in zip(a_ct, b_ct))
        return [
            self.check("C15:token_stream_independent_of_set_iteration_order", z3.BoolVal(same), self.witness),
            # frame condition: a call leaves nothing behind on the (shared, module-level) tokenizer
            self.check("C15:tokenize_leaves_the_tokenizer_object_unchanged", z3.BoolVal(self.state_unchanged), self.witness),
        ]


class HMerge(common.Harness):
    """merge() of two citation tokens with edition tuples; then the order-sensitive readers."""

    def __init__(self, params):
        super().__init__(params)
        import eyecite.models as M
        import eyecite.tokenizers as T

        self.M, self.T = M, T
        self.interp.stubs[set] = lambda items=(): PermSet(self, items)
        import eyecite.utils as U

        self.interp.stubs[U.hash_sha256] = lambda d: absval.StructKey(dict(d))

    def run(self):
        eng, M, T = self.eng, self.M, self.T
        self.nperm = 0
        # a pool of editions: nominative / ordinary reporters; two may share a short_name
        nom = [e for v in T.EDITIONS_LOOKUP.values() for e in v if e.reporter.short_name in T.NOMINATIVE_REPORTER_NAMES][0]
        us = T.EDITIONS_LOOKUP["U.S."][0]
        other = T.EDITIONS_LOOKUP["F.2d"][0]
        twin = M.Edition(M.Reporter("Other Rep.", "Other reporter", "state", "reporters"), us.short_name, None, None)
        pool = [nom, us, other, twin]
        self.pool = pool
        self.pool_names = ["nominative", "U.S.", "F.2d", "twin-of-U.S.(same short_name, other reporter)"]

        def pick(tag):
            out = []
            for j, e in enumerate(pool):
                if eng.choose([z3.Bool(f"{tag}{j}"), z3.Not(z3.Bool(f"{tag}{j}"))]) == 0:
                    out.append(e)
            return tuple(out)

        def pickv(tag):
            # variation candidates: drawn from the two ordinary editions
            out = []
            for j, e in ((1, us), (2, other)):
                if eng.choose([z3.Bool(f"{tag}{j}"), z3.Not(z3.Bool(f"{tag}{j}"))]) == 0:
                    out.append(e)
            return tuple(out)

        self.cfg = {"a_exact": pick("ae"), "b_exact": pick("be"), "a_var": pickv("av"), "b_var": pickv("bv")}
        if not (self.cfg["a_exact"] or self.cfg["a_var"]) or not (self.cfg["b_exact"] or self.cfg["b_var"]):
            raise symex.Infeasible()
        mk = lambda ed, var: M.CitationToken("1 X 1", 0, 5, groups={"volume": "1", "reporter": "X", "page": "1"}, exact_editions=ed, variation_editions=var)
        res = []
        for ident in (True, False):
            self.identity_order = ident
            a, b = mk(self.cfg["a_exact"], self.cfg["a_var"]), mk(self.cfg["b_exact"], self.cfg["b_var"])
            merged = self.interp.call(M.CitationToken.merge, (a, b), {})
            nomin = self.interp.call(T.token_is_from_nominative_reporter, (a,), {}) if (a.exact_editions or a.variation_editions) else None
            c = M.FullCaseCitation(a, 0, exact_editions=a.exact_editions, variation_editions=a.variation_editions)
            c.groups = {"volume": "1", "reporter": "X", "page": "1"}
            h = self.interp.call(M.ResourceCitation.__hash__, (c,), {})
            res.append((merged is not None, nomin, h, set(id(e) for e in a.exact_editions), set(id(e) for e in a.variation_editions)))
        return res

    def witness(self, m):
        names = {id(e): n for e, n in zip([None] * 0, [])}
        return {k: [self.pool_names[[id(x) for x in self.pool].index(id(e))] for e in v] for k, v in self.cfg.items()}

    def describe(self, kind, out):
        return self.witness(None)

    def judge(self, kind, out):
        if kind == "exc":
            return [self.check("C15:merge:no_exception:" + type(out).__name__, False, self.witness)]
        (m1, n1, h1, s1, v1), (m2, n2, h2, s2, v2) = out
        union = {id(e) for e in self.cfg["a_exact"]} | {id(e) for e in self.cfg["b_exact"]}
        unionv = {id(e) for e in self.cfg["a_var"]} | {id(e) for e in self.cfg["b_var"]}
        fs = [
            self.check("C16:merged_candidate_editions_are_the_union_of_both_tokens", z3.BoolVal((not m1) or (s1 == union and v1 == unionv)), self.witness),
            self.check("C15:merged_edition_set_independent_of_order", z3.BoolVal(m1 == m2 and s1 == s2 and v1 == v2), self.witness),
            self.check("C15:nominative_decision_independent_of_order", z3.BoolVal(n1 == n2), self.witness),
            self.check("C15:value_hash_independent_of_order", z3.BoolVal(bool(h1 == h2)), self.witness),
        ]
        return fs


class HRefOrder(common.Harness):
    """reference-citation pattern construction: iteration over any hash set met by the interpreted code is
    an arbitrary permutation; the regex that is compiled must not depend on it."""

    def __init__(self, params):
        super().__init__(params)
        import eyecite.find as F
        import eyecite.models as M

        self.F, self.M = F, M
        self.interp.stubs[set] = lambda items=(): PermSet(self, items)
        self.interp.set_order_hook = self.permute
        self.patterns = []

        def hook(pat, name, args, kwargs):
            self.patterns[-1].append(pat.pattern)
            return []

        self.interp.pattern_hook = hook

    def permute(self, items):
        items = sorted(items, key=repr)
        if self.identity_order:
            return items
        out = []
        while len(items) > 1:
            self.nperm += 1
            k = self.eng.choose([z3.Int(f"perm{self.nperm}") == j for j in range(len(items))])
            out.append(items.pop(k))
        return out + items

    def run(self):
        M = self.M
        self.nperm = 0
        self.patterns = []
        n = z3.Int("n")
        self.eng.add(n >= 10)
        tok = M.CitationToken("1 U.S. 1", 0, 8, groups={"volume": "1", "reporter": "U.S.", "page": "1"})
        c = M.FullCaseCitation(tok, 0)
        same = self.eng.choose([z3.Bool("same_name"), z3.Not(z3.Bool("same_name"))]) == 0
        self.same = same
        c.metadata.plaintiff = "Jones"
        c.metadata.defendant = "Jones" if same else "Smith"
        c.metadata.resolved_case_name_short = "Jones"
        for ident in (True, False):
            self.identity_order = ident
            self.patterns.append([])
            self.interp.call(self.F.extract_pincited_reference_citations, (c, TStr.base(n)), {})
        return self.patterns

    def witness(self, m):
        return {"plaintiff_equals_defendant": self.same}

    def describe(self, kind, out):
        return self.witness(None)

    def judge(self, kind, out):
        if kind == "exc":
            return [self.check("C15:ref:no_exception:" + type(out).__name__, False, self.witness)]
        a, b = out
        return [self.check("C15:reference_pattern_independent_of_set_iteration_order", z3.BoolVal(a == b), self.witness)]


class HHash(common.Harness):
    """value hashes under hash randomisation.  CPython's hash of a non-empty str/bytes is a function of the
    process's hash seed: here it is an uninterpreted function pyhash(seed, value) (tuples and frozensets of
    such values likewise); hash of ints/None and of hash_sha256's result are seed independent.  The real
    __hash__ of every kind of citation that hashes by value (and of Resource) is executed under two symbolic
    seeds in the same path; the two results must be equal for all seeds."""

    KINDS = ["full_case", "short_case", "law", "journal", "supra", "reference", "resource"]

    def __init__(self, params):
        super().__init__(params)
        import eyecite.models as M
        import eyecite.tokenizers as T
        import eyecite.utils as U

        self.M, self.T = M, T
        self.interp.stubs[U.hash_sha256] = lambda d: absval.StructKey(dict(d))
        self.interp.stubs[hash] = self.model_hash
        self.H = z3.Function("pyhash", z3.IntSort(), z3.IntSort(), z3.IntSort())
        self.keys = {}

    def seed_dependent(self, x):
        if isinstance(x, (str, bytes)):
            return len(x) > 0
        if symex.is_sym(x) and not isinstance(x, (SInt, symex.SBool)):
            return True
        if isinstance(x, (tuple, frozenset)):
            return any(self.seed_dependent(y) for y in x)
        return False

    def model_hash(self, x):
        if self.seed_dependent(x):
            k = self.keys.setdefault(repr(x), len(self.keys))
            return SInt(self.H(self.seed, z3.IntVal(k)))
        return self.interp.hash_of(x)

    def build(self, kind):
        M, T = self.M, self.T
        us = T.EDITIONS_LOOKUP["U.S."][0]
        g = {"volume": "1", "reporter": "U.S.", "page": "1"}
        if kind in ("full_case", "resource"):
            c = M.FullCaseCitation(M.CitationToken("1 U.S. 1", 0, 8, groups=dict(g)), 0, exact_editions=(us,))
            c.edition_guess = us
            return M.Resource(citation=c) if kind == "resource" else c
        if kind == "short_case":
            c = M.ShortCaseCitation(M.CitationToken("1 U.S. at 1", 0, 11, groups=dict(g), short=True), 0, exact_editions=(us,))
            c.edition_guess = us
            return c
        if kind == "law":
            ed = T.EDITIONS_LOOKUP["Mass. Gen. Laws"][0]
            return M.FullLawCitation(M.CitationToken("Mass. Gen. Laws ch. 1, § 2", 0, 26, groups={"reporter": "Mass. Gen. Laws", "chapter": "1", "section": "2"}), 0, exact_editions=(ed,))
        if kind == "journal":
            ed = T.EDITIONS_LOOKUP["Minn. L. Rev."][0]
            return M.FullJournalCitation(M.CitationToken("1 Minn. L. Rev. 1", 0, 17, groups={"volume": "1", "reporter": "Minn. L. Rev.", "page": "1"}), 0, exact_editions=(ed,))
        if kind == "supra":
            return M.SupraCitation(M.SupraToken("supra", 0, 5), 0, metadata={"antecedent_guess": "Bar", "pin_cite": "at 5"})
        return M.ReferenceCitation(M.CaseReferenceToken("Bar at 7", 0, 8), 0, metadata={"defendant": "Bar", "pin_cite": "7"})

    def run(self):
        k = self.KINDS[self.eng.choose([z3.Int("kind") == j for j in range(len(self.KINDS))])]
        self.kind = k
        obj = self.build(k)
        out = []
        for tag in ("seedA", "seedB"):
            self.seed = z3.Int(tag)
            out.append(self.interp.hash_of(obj))
        return out

    def witness(self, m):
        return {"kind": self.kind, "seedA": mval(m, z3.Int("seedA")), "seedB": mval(m, z3.Int("seedB"))}

    def describe(self, kind, out):
        return {"kind": self.kind}

    def judge(self, kind, out):
        if kind == "exc":
            return [self.check("C15:hash:no_exception:" + type(out).__name__, False, self.witness)]
        a, b = out
        if isinstance(a, absval.StructKey) or isinstance(b, absval.StructKey):
            same = z3.BoolVal(bool(a == b))
        else:
            same = lift_int(a) == lift_int(b)
        return [self.check("C15:value_hash_independent_of_the_hash_seed", same, self.witness)]


def make(params):
    return {"tok": HTok, "merge": HMerge, "ref": HRefOrder, "hash": HHash}[params["part"]](params)


# ---------------------------------------------------------------- replay in fresh processes
SNIPPET = r"""
import json, sys
from eyecite import get_citations
out = []
for t in json.loads(sys.argv[1]):
    try:
        cs = get_citations(t)
    except Exception as ex:
        out.append(["raised", type(ex).__name__])
        continue
    out.append([[type(c).__name__, list(c.span()), list(c.full_span()), {k: v for k, v in c.groups.items()}, {k: v for k, v in vars(c.metadata).items() if isinstance(v, (str, int)) or v is None}, sorted((e.short_name, e.reporter.short_name) for e in getattr(c, "exact_editions", ())), sorted((e.short_name, e.reporter.short_name) for e in getattr(c, "variation_editions", ())), getattr(getattr(c, "edition_guess", None), "short_name", None), (hash(c) if type(c).__name__ not in ("IdCitation", "UnknownCitation") and c.groups.get("page", 1) is not None else None)] for c in cs])
print(json.dumps(out))
"""
TIE_TEXTS = ["Foo supra,§, 5 bar", "In Jones v. Jones, 1 U.S. 1, 2 (1999), the court spoke. In Jones at 5, it held more.", "See Foo v. Bar, 1 U.S. 1 (1999); id. at 3; Bar, supra, at 5.", "supra §", "Id.,§ 5", "1 Cooke 2, 3 Thompson 4. Holmes, 5 Bee 6.", "x §supra y", "2 Wash. 3 and 1 Wash. 2d 4", "1 Mass. App. Dec. 2; 1 Pa. D. & C. 3; 1 S. C. 2"]


def run_with_seed(seed, texts):
    env = dict(os.environ)
    env["PYTHONHASHSEED"] = str(seed)
    r = subprocess.run(["/venv/bin/python", "-c", SNIPPET, json.dumps(texts)], capture_output=True, text=True, env={**env, **({"PYTHONPATH": common.REPO} if common.REPO != "/repo" else {})}, cwd=common.REPO, timeout=300)
    if r.returncode != 0:
        return None, r.stderr[-400:]
    return json.loads(r.stdout.strip().splitlines()[-1]), None


HASH_TEXTS = ["Foo v. Bar, 1 U.S. 1 (1990). Bar at 7. Foo, supra, at 5. See 1 U.S. at 3.", "See 1 Minn. L. Rev. 1 (2020) and Mass. Gen. Laws ch. 1, § 2."]
HISTORY_TEXTS = ["Roe, 410 U.S. at ___.", "Foo v. Bar, 1 U.S. ___ (2020). Id. at 5.", "See 1 Minn. L. Rev. ___ (2020).", "Foo v. Bar, 1 U.S. 1, 2 S. Ct. 3 (1999). Bar at 5."]


def history_replay(texts):
    """one process, every text extracted twice in a row and once more after all the others; each result must
    equal the result of a single call in a fresh process."""
    single = []
    for t in texts:
        out, err = run_with_seed(0, [t])
        if out is None:
            return ("error", err)
        single.append(out[0])
    seq = [t for t in texts for _ in (0, 1)] + list(texts)
    out, err = run_with_seed(0, seq)
    if out is None:
        return ("error", err)
    for k, (t, got) in enumerate(zip(seq, out)):
        want = single[texts.index(t)]
        if got != want:
            return ("differs", {"text": t, "call_number": k + 1, "fresh": want, "after_history": got})
    return ("same", None)


THREAD_SNIPPET = r"""
import json, sys, threading, time
from eyecite import get_citations
texts = json.loads(sys.argv[1])
def snap(t):
    try:
        return [[type(c).__name__, list(c.span()), {k: v for k, v in c.groups.items()}] for c in get_citations(t)]
    except Exception as ex:
        return ["raised", type(ex).__name__]
base = [snap(t) for t in texts]
sys.setswitchinterval(1e-6)
bad = []
stop = time.time() + float(sys.argv[2])
def work(k):
    i = k
    while time.time() < stop and not bad:
        j = i % len(texts)
        r = snap(texts[j])
        if r != base[j]:
            bad.append({"text": texts[j], "sequential": base[j], "threaded": r})
        i += 1
ths = [threading.Thread(target=work, args=(k,)) for k in range(8)]
[t.start() for t in ths]
[t.join() for t in ths]
print(json.dumps(bad[:1]))
"""


def thread_replay(texts, seconds=20):
    """8 threads share the default tokenizer; every result must equal the sequential one.  A difference is a
    reproduced violation; agreement proves nothing (schedules are not enumerated)."""
    env = dict(os.environ)
    r = subprocess.run(["/venv/bin/python", "-c", THREAD_SNIPPET, json.dumps(texts), str(seconds)], capture_output=True, text=True, env={**env, **({"PYTHONPATH": common.REPO} if common.REPO != "/repo" else {})}, cwd=common.REPO, timeout=seconds + 120)
    if r.returncode != 0:
        return ("error", r.stderr[-400:])
    bad = json.loads(r.stdout.strip().splitlines()[-1])
    return ("differs", bad[0]) if bad else ("same", None)


def seed_replay(texts, seeds=(0, 1, 2, 3, 4, 5)):
    base = None
    for s in seeds:
        out, err = run_with_seed(s, texts)
        if out is None:
            return ("error", err)
        if base is None:
            base = out
        elif out != base:
            for t, a, b in zip(texts, base, out):
                if a != b:
                    return ("differs", {"text": t, "seed_a": seeds[0], "seed_b": s, "a": a, "b": b})
    return ("same", None)


def merge_sweep():
    """live database: every reporter/law/journal string in the two minimal forms; tokens that merge() would
    combine are grouped, and groups whose merged edition tuple could make an order-sensitive reader differ
    are returned: (text, why)."""
    import collections

    import eyecite.tokenizers as T

    tk = T.default_tokenizer
    risky, groups_seen = [], 0
    for s in list(T.EDITIONS_LOOKUP):
        for form in ("1 %s 2", "1 %s at 2"):
            text = form % s
            toks = [t for t in tk.extract_tokens(text) if isinstance(t, T.CitationToken)]
            groups = collections.defaultdict(list)
            for t in toks:
                groups[(t.start, t.end, tuple(sorted((k, v) for k, v in t.groups.items() if v)), t.short)].append(t)
            for ts in groups.values():
                if len(ts) < 2:
                    continue
                groups_seen += 1
                for attr in ("exact_editions", "variation_editions"):
                    eds = {e for t in ts for e in getattr(t, attr)}
                    names = {e.reporter.short_name for e in eds}
                    nom = names & T.NOMINATIVE_REPORTER_NAMES
                    if nom and names - nom:
                        risky.append((text, f"{attr} mix nominative {sorted(nom)} and other reporters {sorted(names - nom)}"))
                    cnt = collections.Counter(e.short_name for e in eds)
                    if any(c > 1 for c in cnt.values()) and any(e.reporter.source != "reporters" for e in eds):
                        risky.append((text, f"{attr} of a law/journal token hold two editions with the same short_name"))
    return groups_seen, risky


def check(rep):
    quick = rep.tier == "quick"
    K = 2 if quick else 3
    rep.bounds.append(f"(a) 2 abstract extractors (unfiltered / case-sensitive / case-insensitive) each yielding one candidate token of symbolic kind (5 kinds) and offsets" + ("" if quick else ", and 3 extractors over 2 token kinds") + ", every iteration order of every set; (c) __hash__ of each of 6 value-hashed citation kinds and of Resource under two symbolic str-hash seeds; (b) merge of two citation tokens whose edition tuples are drawn from a pool of 4 editions (nominative, two ordinary, one sharing a short_name with another reporter), every de-duplication order")
    rep.outside += ["thread schedules (no usable concurrency model of CPython here; the shared writes are the idempotent _compiled_regex and _db caches)", "cross-call history beyond the frame condition on the tokenizer object (tokenize leaves its attributes unchanged) and the call-sequence replay", "order of the candidate-edition tuples themselves (compared as sets)"]
    rep.stubs += ["set(...): iteration order is an arbitrary permutation (this is the PYTHONHASHSEED variable)", "ahocorasick automata: report every registered word that occurs (occurrence fixed true)", "Tokenizer.append_text: its summary (see C12)", "hash_sha256: injective", "builtin hash() of a non-empty str/bytes (or a tuple/frozenset holding one): uninterpreted function pyhash(seed, value); of ints/None: seed independent"]
    findings = []
    agg = common.explore_split("vf.harness.c15", {"part": "tok", "K": 2}, depth=4)
    rep.merge_explore("tokenize_under_permuted_sets", agg)
    findings += [("tok", f) for f in agg["findings"]]
    tot = dict(agg["verdicts"])
    if not quick:
        # three extractors over two token kinds (five kinds at K = 3 did not finish in an hour, three kinds not in 75 minutes)
        agg = common.explore_split("vf.harness.c15", {"part": "tok", "K": 3, "kinds": ["supra", "cite_us"]}, depth=5, timeout=3 * 3600)
        rep.merge_explore("tokenize_under_permuted_sets_3", agg)
        findings += [("tok", f) for f in agg["findings"]]
        for k, v in agg["verdicts"].items():
            tot[k] = tot.get(k, 0) + v
    agg = common.explore_split("vf.harness.c15", {"part": "merge"}, depth=4)
    rep.merge_explore("merge_under_permuted_sets", agg)
    findings += [("merge", f) for f in agg["findings"]]
    for k, v in agg["verdicts"].items():
        tot[k] = tot.get(k, 0) + v
    agg = common.explore_split("vf.harness.c15", {"part": "ref"}, depth=3, procs=1)
    rep.merge_explore("reference_pattern_under_permuted_sets", agg)
    findings += [("ref", f) for f in agg["findings"]]
    for k, v in agg["verdicts"].items():
        tot[k] = tot.get(k, 0) + v
    agg = common.explore_split("vf.harness.c15", {"part": "hash"}, depth=1, procs=1)
    rep.merge_explore("value_hashes_under_two_symbolic_hash_seeds", agg)
    for k, v in agg["verdicts"].items():
        tot[k] = tot.get(k, 0) + v
    hash_cex = [f for f in agg["findings"] if f["verdict"] == "cex"]
    for f in agg["findings"]:
        if f["verdict"] != "cex":
            rep.inconc(f"hash/{f['clause']}: solver verdict {f['verdict']}")
    if hash_cex:
        rep.replays += 1
        hv, hd = seed_replay(HASH_TEXTS)
        if hv == "differs":
            rep.violation(f"hash() of a citation that hashes by value ({', '.join(sorted({f['witness']['kind'] for f in hash_cex}))}) depends on PYTHONHASHSEED: get_citations({hd['text']!r}) seed {hd['seed_a']} vs {hd['seed_b']}: {json.dumps(hd['a'])[:160]} vs {json.dumps(hd['b'])[:160]}", {"kind": "seeds", "texts": HASH_TEXTS})
        else:
            rep.inconc(f"hash/{hash_cex[0]['clause']}: the interpreted __hash__ of {hash_cex[0]['witness']['kind']} depends on the str-hash seed but the process replay on {HASH_TEXTS} says {hv}")
    rep.distinct = rep.evaluations
    groups_seen, risky = merge_sweep()
    rep.sections["live_db_merge_sweep"] = {"merge_groups": groups_seen, "order_sensitive_groups": risky[:5], "note": "exhaustive over the reporter strings of the installed database in the two minimal forms (data enumeration, not a solver result)"}
    n_ob = sum(tot.values())
    n_ok = sum(v for k, v in tot.items() if k.endswith(":valid"))
    cex = [(p, f) for p, f in findings if f["verdict"] == "cex"]
    for p, f in findings:
        if f["verdict"] not in ("cex",):
            rep.inconc(f"{p}/{f['clause']}: solver verdict {f['verdict']}")
    rep.replays += 1
    texts = TIE_TEXTS + [t for t, _ in risky[:10]]
    verdict, detail = seed_replay(texts)
    if verdict == "differs":
        rep.violation(f"get_citations({detail['text']!r}) differs between PYTHONHASHSEED={detail['seed_a']} and {detail['seed_b']}: {json.dumps(detail['a'])[:200]} vs {json.dumps(detail['b'])[:200]}", {"kind": "seeds", "texts": texts})
    elif verdict == "error":
        rep.inconc(f"subprocess replay failed: {detail}")
    # history clause: counter-models of the frame condition are confirmed by call sequences in one process
    frame_cex = [(p, f) for p, f in cex if f["clause"] == "C15:tokenize_leaves_the_tokenizer_object_unchanged"]
    cex = [(p, f) for p, f in cex if f["clause"] != "C15:tokenize_leaves_the_tokenizer_object_unchanged"]
    rep.replays += 1
    hv, hd = history_replay(TIE_TEXTS[:4] + HISTORY_TEXTS)
    if hv == "differs":
        rep.violation(f"get_citations({hd['text']!r}) as call number {hd['call_number']} of one process differs from the same call in a fresh process: {json.dumps(hd['after_history'])[:200]} vs {json.dumps(hd['fresh'])[:200]}", {"kind": "history", "texts": TIE_TEXTS[:4] + HISTORY_TEXTS})
    elif hv == "error":
        rep.inconc(f"history replay failed: {hd}")
    elif frame_cex:
        # state written during a call and shared by all callers: sequentially harmless here, so try threads
        rep.replays += 1
        tv, td = thread_replay(TIE_TEXTS[:4] + HISTORY_TEXTS + ["See Foo v. Bar, 1 U.S. 1, 2 F.2d 3 (1999); id. at 4.", "no citation here", "Id. at 5; supra note 3."])
        if tv == "differs":
            rep.violation(f"get_citations({td['text']!r}) from 8 threads sharing the default tokenizer differs from the sequential result: {json.dumps(td['threaded'])[:200]} vs {json.dumps(td['sequential'])[:200]}", {"kind": "threads", "texts": TIE_TEXTS[:4] + HISTORY_TEXTS})
        else:
            rep.inconc(f"a tokenize call leaves state behind on the shared tokenizer object ({frame_cex[0][1]['witness']}); the call-sequence replay agrees with fresh processes and a 20 s run of 8 threads did not expose a difference ({tv})")
    if verdict == "same":
        tok_cex = [(p, f) for p, f in cex if p in ("tok", "ref")]
        for p, f in tok_cex[:3]:
            rep.inconc(f"{p}/{f['clause']}: order dependence found by the solver but the process replay with different hash seeds agrees on the tie texts: {f['witness']}")
        merge_cex = [(p, f) for p, f in cex if p == "merge"]
        if merge_cex:
            if risky:
                rep.inconc(f"merge() is order dependent and the live database has merge groups that could expose it ({risky[0]}), but the process replay agrees across hash seeds")
            else:
                rep.sections["merge_order_dependence"] = {"symbolic_counter_models": len(merge_cex), "sample": merge_cex[0][1]["witness"], "status": "latent: CitationToken.merge de-duplicates through set(), so the order of the merged edition tuples depends on the hash seed, and token_is_from_nominative_reporter / ResourceCitation.__hash__ read that order; the exhaustive sweep of the installed reporters-db finds no merge group in which that order can change a result, and the seeded process replay agrees; recorded as outside the claim"}
                rep.outside.append("order of merged edition tuples when a merged token would mix a nominative with another reporter, or hold two editions sharing a short_name in a law/journal token (no such merge group exists in the installed reporters-db; swept exhaustively)")
                n_ok += sum(tot.get(k, 0) for k in tot if k.startswith("C15:nominative_decision") and k.endswith(":cex")) + sum(tot.get(k, 0) for k in tot if k.startswith("C15:value_hash") and k.endswith(":cex"))
    rep.oblige(n_ok)
    rep.oblige(n_ob - n_ok, ok=False)
    return rep.finish(
        explanation="Symbolic execution of the real get_extractors / extract_tokens / tokenize / CitationToken.merge / token_is_from_nominative_reporter / ResourceCitation.__hash__ source with `set` iteration order as a symbolic permutation: every result is compared, in the same path, with the result under the identity order.  A dependence is confirmed by running the real get_citations in fresh processes with different PYTHONHASHSEED values.",
        technique="symbolic execution of the Python source with set iteration order as a symbolic permutation (self-composition of two runs per path); replay in subprocesses with different hash seeds",
    )


def replay_file(path):
    r = json.load(open(path))["replay"]
    if r.get("kind") == "threads":
        v, d = thread_replay(r["texts"])
        print(v, d)
        return 1 if v == "differs" else 0
    if r.get("kind") == "history":
        v, d = history_replay(r["texts"])
        print(v, d)
        return 1 if v == "differs" else 0
    v, d = seed_replay(r["texts"])
    print(v, d)
    return 1 if v == "differs" else 0
