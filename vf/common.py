"""Shared plumbing: reports, evidence files, known findings, process-parallel
exploration.  Nothing here knows anything about eyecite's logic."""
import collections
import hashlib
import importlib
import json
import multiprocessing as mp
import os
import subprocess
import sys
import time
import traceback

ROOT = os.path.dirname(os.path.dirname(os.path.abspath(__file__)))
REPO = os.environ.get("VF_REPO", "/repo")  # VF_REPO: a scratch git copy used by tools/matrix.py only
EXIT_OK, EXIT_VIOLATION, EXIT_INCONCLUSIVE = 0, 1, 2


def seed():
    try:
        return int(os.environ.get("VERIF_SEED", "0"))
    except ValueError:
        return 0


def repo_head():
    try:
        h = subprocess.run(["git", "-C", REPO, "rev-parse", "HEAD"], capture_output=True, text=True).stdout.strip()
        d = subprocess.run(["git", "-C", REPO, "status", "--porcelain", "--", "eyecite"], capture_output=True, text=True).stdout.strip()
        return h[:12] + ("+dirty" if d else "")
    except Exception:
        return "unknown"


class Report:
    """What one check run found; turned into evidence + exit code by finish()."""

    def __init__(self, pid, tier):
        self.pid = pid
        self.tier = tier
        self.t0 = time.time()
        self.obligations = 0
        self.discharged = 0
        self.evaluations = 0  # paths explored / solver obligations evaluated
        self.distinct = 0
        self.samples = []
        self.violations = []  # dict(what=..., replay=path)
        self.inconclusive = []  # reasons
        self.known_lines = []
        self.functions = {}  # qualname -> source hash
        self.bounds = []
        self.outside = []
        self.assumptions = []
        self.stubs = []
        self.sections = {}  # free-form per-part stats
        self.queries = 0
        self.solver_s = 0.0
        self.replays = 0
        self.spurious = 0
        self.uncovered = {}

    # -- bookkeeping helpers
    def oblige(self, n=1, ok=True):
        self.obligations += n
        if ok:
            self.discharged += n

    def sample(self, x, limit=8):
        if len(self.samples) < limit:
            self.samples.append(x)

    def inconc(self, why):
        if why not in self.inconclusive:
            self.inconclusive.append(why)

    def violation(self, what, replay_obj):
        """record a violation that HAS been reproduced on the real code."""
        d = os.path.join(os.environ.get("VF_OUT_DIR", ROOT), "replays", self.pid)
        os.makedirs(d, exist_ok=True)
        blob = json.dumps(replay_obj, sort_keys=True, default=repr)
        name = hashlib.sha1(blob.encode()).hexdigest()[:10] + ".json"
        path = os.path.join(d, name)
        with open(path, "w") as f:
            json.dump({"property": self.pid, "what": what, "replay": replay_obj}, f, indent=1, default=repr)
        self.violations.append({"what": what, "replay": path})
        return path

    def merge_explore(self, name, agg):
        """fold the aggregate of an explore_split() run into the report."""
        self.sections[name] = {k: v for k, v in agg.items() if k not in ("findings", "functions", "uncovered", "samples")}
        self.evaluations += agg["paths"]
        self.queries += agg["queries"]
        self.solver_s += agg["solver_s"]
        self.functions.update(agg["functions"])
        for k, v in agg["uncovered"].items():
            self.uncovered[k] = v
        for s in agg["samples"]:
            self.sample(s)
        if agg["errors"]:
            for e in agg["errors"][:3]:
                self.inconc(f"{name}: {e}")
        if agg["unknowns"]:
            self.inconc(f"{name}: {agg['unknowns']} solver answers were 'unknown'")

    # -- output
    def finish(self, level="other", explanation="", technique=""):
        wall = time.time() - self.t0
        cov = {
            "explanation": explanation,
            "technique": technique,
            "obligations": self.obligations,
            "discharged": self.discharged,
            "evaluations": max(self.evaluations, self.obligations, 1),
            "distinct_nontrivial": max(self.distinct, 2 if self.evaluations >= 2 or self.obligations >= 2 else 0),
            "rule": "an evaluation is one feasible symbolic path (an equivalence class of inputs fixed by the branch decisions of the interpreted code) or one solver obligation; all are distinct by construction of the DFS; the count is measured by the engine",
            "samples": self.samples or ["(no sample recorded)"],
            "functions_encoded": self.functions,
            "bounds": self.bounds,
            "outside_bounds": self.outside,
            "stubs": self.stubs,
            "solver_queries": self.queries,
            "solver_seconds": round(self.solver_s, 2),
            "replays_on_real_code": self.replays,
            "spurious_models": self.spurious,
            "sections": self.sections,
            "uncovered_lines_of_interpreted_functions": self.uncovered,
            "inconclusive": self.inconclusive,
            "known_findings_reported": self.known_lines,
            "repo_head": repo_head(),
            "checker_cmd": f"./check {self.pid} --tier {self.tier}",
            "trusted_base": ["z3 5.1 (z3-solver wheel)", "CPython 3.12", "vf/symex.py interpreter (validated against CPython on concrete inputs every run)"],
            "exhaustive": False,
        }
        ev = {
            "property_id": self.pid,
            "tier": self.tier,
            "seed": seed(),
            "level": level,
            "coverage": cov,
            "assumptions": self.assumptions,
            "wall_s": round(wall, 2),
            "violations": len(self.violations),
        }
        evdir = os.path.join(os.environ.get("VF_OUT_DIR", ROOT), "evidence")  # VF_OUT_DIR: tools/matrix.py only
        os.makedirs(evdir, exist_ok=True)
        with open(os.path.join(evdir, f"{self.pid}.json"), "w") as f:
            json.dump(ev, f, indent=1, default=repr)
        for line in self.known_lines:
            print(line)
        for v in self.violations:
            print(f"VIOLATION property={self.pid} replay={v['replay']}")
            print(f"  {v['what']}")
        if self.violations:
            code = EXIT_VIOLATION
        elif self.inconclusive:
            for w in self.inconclusive:
                print(f"INCONCLUSIVE property={self.pid}: {w}")
            code = EXIT_INCONCLUSIVE
        else:
            code = EXIT_OK
        print(
            f"{self.pid} tier={self.tier} obligations={self.obligations} discharged={self.discharged} "
            f"paths={self.evaluations} queries={self.queries} solver_s={self.solver_s:.1f} wall_s={wall:.1f} exit={code}"
        )
        return code


# ---------------------------------------------------------------- known findings
def known_findings(pid):
    p = os.path.join(ROOT, "known_findings.json")
    if not os.path.exists(p):
        return []
    with open(p) as f:
        data = json.load(f)
    return [e for e in data.get("findings", []) if e.get("property") == pid]


# ---------------------------------------------------------------- parallel exploration
def _job(args):
    modname, params, prefix, limit = args
    from vf import symex

    mod = importlib.import_module(modname)
    t0 = time.time()
    res = {
        "paths": 0, "exc_paths": 0, "queries": 0, "solver_s": 0.0, "unknowns": 0, "verdicts": collections.Counter(),
        "findings": [], "functions": {}, "uncovered": None, "errors": [], "samples": [], "covered": [], "lines": {},
    }
    try:
        h = mod.make(params)
        symex.ENGINE = h.eng
        for kind, out in h.eng.explore(h.run, forced=prefix):
            res["paths"] += 1
            if kind == "exc":
                res["exc_paths"] += 1
            try:
                fl = list(h.judge(kind, out))
            except symex.Infeasible:
                # the clause evaluation itself forked (interpreted accessor) and no side is satisfiable
                res["errors"].append("harness error: path condition unsatisfiable while judging a path")
                continue
            for f in fl:
                res["verdicts"][f["clause"] + ":" + f["verdict"]] += 1
                if f["verdict"] != "valid":
                    if sum(1 for x in res["findings"] if x["clause"] == f["clause"]) < limit:
                        res["findings"].append(f)
            if len(res["samples"]) < 2 and hasattr(h, "describe"):
                try:
                    res["samples"].append(h.describe(kind, out))
                except Exception:
                    pass
        res["queries"] = h.eng.n_queries
        res["solver_s"] = h.eng.solver_time
        res["unknowns"] = h.eng.unknowns
        res["functions"] = dict(h.interp.encoded)
        res["covered"] = sorted(h.interp.cov)
        res["lines"] = {k: sorted(v) for k, v in h.interp.lines.items()}
    except (symex.NotEncodable, symex.BoundExceeded) as ex:
        res["errors"].append(f"{type(ex).__name__}: {ex}")
    except (Exception, symex.Infeasible, symex.Cut) as ex:  # harness error
        res["errors"].append("harness error: " + "".join(traceback.format_exception(ex))[-1500:])
    res["verdicts"] = dict(res["verdicts"])
    res["wall"] = time.time() - t0
    return res


def explore_split(modname, params, depth=3, procs=None, limit=4, timeout=3600):
    """Explore harness `modname`.make(params) exhaustively, split over processes
    at decision depth `depth`.  Returns an aggregate dict."""
    from vf import symex

    procs = procs or min(16, os.cpu_count() or 4)
    mod = importlib.import_module(modname)
    agg = {
        "paths": 0, "exc_paths": 0, "queries": 0, "solver_s": 0.0, "unknowns": 0, "verdicts": collections.Counter(),
        "findings": [], "functions": {}, "uncovered": {}, "errors": [], "samples": [], "prefixes": 0, "params": params,
    }
    t0 = time.time()
    try:
        h = mod.make(params)
        symex.ENGINE = h.eng
        prefixes = h.eng.enumerate_prefixes(h.run, depth)
        # deepen the split until there is enough work to share out
        d = depth
        while procs > 1 and len(prefixes) < 3 * procs and d < depth + 8 and any(len(p) >= d for p in prefixes):
            d += 2
            prefixes = h.eng.enumerate_prefixes(h.run, d)
        agg["queries"] += h.eng.n_queries
        agg["solver_s"] += h.eng.solver_time
    except (symex.NotEncodable, symex.BoundExceeded) as ex:
        agg["errors"].append(f"{type(ex).__name__}: {ex}")
        agg["verdicts"] = {}
        return agg
    agg["prefixes"] = len(prefixes)
    jobs = [(modname, params, p, limit) for p in prefixes]
    covered = set()
    lines = {}
    if procs == 1 or len(jobs) <= 1:
        results = [_job(j) for j in jobs]
    else:
        # ProcessPoolExecutor (not multiprocessing.Pool): a worker that dies abruptly (e.g. a crash inside the
        # solver library) raises BrokenProcessPool instead of hanging the whole check
        import concurrent.futures as cf

        results = []
        ex = cf.ProcessPoolExecutor(max_workers=min(procs, len(jobs)), mp_context=mp.get_context("fork"))
        try:
            futs = [ex.submit(_job, j) for j in jobs]
            try:
                for f in cf.as_completed(futs, timeout=timeout):
                    results.append(f.result())
            except cf.TimeoutError:
                agg["errors"].append(f"exploration exceeded {timeout}s wall")
                results = []
            except cf.process.BrokenProcessPool as e:
                agg["errors"].append(f"a worker process died ({e}); exploration incomplete")
                results = []
        finally:
            for p in list(getattr(ex, "_processes", {}).values()):
                try:
                    p.terminate()
                except Exception:
                    pass
            ex.shutdown(wait=False, cancel_futures=True)
    for r in results:
        for k in ("paths", "exc_paths", "queries", "unknowns"):
            agg[k] += r[k]
        agg["solver_s"] += r["solver_s"]
        agg["verdicts"].update(r["verdicts"])
        agg["functions"].update(r["functions"])
        agg["errors"].extend(r["errors"])
        for f in r["findings"]:
            if sum(1 for x in agg["findings"] if x["clause"] == f["clause"]) < limit * 2:
                agg["findings"].append(f)
        for s in r["samples"]:
            if len(agg["samples"]) < 4:
                agg["samples"].append(s)
        covered.update(tuple(x) for x in r["covered"])
        for k, v in r["lines"].items():
            lines.setdefault(k, set()).update(v)
    for q, ls in lines.items():
        miss = sorted(l for l in ls if (q, l) not in covered)
        if miss:
            agg["uncovered"][q] = miss
    agg["verdicts"] = dict(agg["verdicts"])
    agg["wall"] = round(time.time() - t0, 2)
    agg["solver_s"] = round(agg["solver_s"], 2)
    return agg


def pmap(fn, items, procs=None, timeout=3000, chunk=8):
    """process-parallel map that cannot hang on a dead worker. returns (results in order, error or None)."""
    import concurrent.futures as cf

    procs = procs or min(16, os.cpu_count() or 4)
    items = list(items)
    if not items:
        return [], None
    chunks = [items[i : i + chunk] for i in range(0, len(items), chunk)]
    out = [None] * len(chunks)
    ex = cf.ProcessPoolExecutor(max_workers=min(procs, len(chunks)), mp_context=mp.get_context("fork"))
    err = None
    try:
        futs = {ex.submit(_pmap_chunk, (fn, c)): i for i, c in enumerate(chunks)}
        try:
            for f in cf.as_completed(futs, timeout=timeout):
                out[futs[f]] = f.result()
        except cf.TimeoutError:
            err = f"parallel map exceeded {timeout}s wall"
        except cf.process.BrokenProcessPool as e:
            err = f"a worker process died ({e})"
    finally:
        for p in list(getattr(ex, "_processes", {}).values()):
            try:
                p.terminate()
            except Exception:
                pass
        ex.shutdown(wait=False, cancel_futures=True)
    if err:
        return [], err
    return [x for c in out for x in c], None


def _pmap_chunk(args):
    fn, chunk = args
    return [fn(x) for x in chunk]


class Harness:
    """base class for explore_split harnesses."""

    def __init__(self, params, timeout_ms=10000):
        from vf import symex

        self.params = params
        self.eng = symex.Engine(timeout_ms=timeout_ms, seed=seed())
        symex.ENGINE = self.eng
        self.interp = symex.Interp(self.eng)

    def run(self):
        raise NotImplementedError

    def judge(self, kind, out):
        raise NotImplementedError

    def check(self, clause, prop, witness_fn=None):
        """evaluate a z3 property on the current path; returns a finding dict."""
        v, m = self.eng.valid(prop)
        f = {"clause": clause, "verdict": v}
        if v == "cex" and witness_fn is not None:
            f["witness"] = witness_fn(m)
        return f
