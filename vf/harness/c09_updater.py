"""factory module for the SpanUpdater-only harness (see c09.HU)."""
from vf.harness.c09 import HU


def make(params):
    return HU(params)
