#!/bin/bash
# tools/import_r5.sh <Cxx> : copy a round-5 sub-agent deliverable (/tmp/r5/Cxx/{A,B}) into seeded/Cxx-5A, -5B
set -e
p=$1
for v in A B; do
  s=/tmp/r5/$p/$v; d=/verif/seeded/$p-5$v
  [ -s $s/patch.diff ] || { echo "no $s/patch.diff"; continue; }
  mkdir -p $d; cp $s/patch.diff $s/demo.py $d/; [ -f $s/meta.json ] && cp $s/meta.json $d/ || echo '{}' > $d/meta.json
  echo imported $d
done
