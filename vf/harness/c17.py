"""C17 — extracted metadata is text taken from the citation's own extent (shares the harness of C02)."""
from vf.harness import c02


def check(rep):
    return c02.run_property(rep, "C17")


replay_file = c02.replay_file
