"""Abstract values for the resolver / equality harnesses.

Atom    : an opaque interned string (equality and a declared substring relation only)
NumStr  : the decimal rendering of a symbolic non-negative int (isdigit, int())
WordStr : a non-numeric string (isdigit() False), otherwise like Atom
PinStr  : a pin cite that is numeric ('[at ]<q>...') or not
StructKey: what hash_sha256 returns under the injectivity assumption: the dict itself,
           compared structurally
SymSet / SymDD: set / defaultdict keyed by values whose equality is symbolic (forks)
"""
import z3

from vf import symex
from vf.symex import SBool, SInt, NotEncodable, mkbool

Sub = z3.Function("Sub", z3.IntSort(), z3.IntSort(), z3.BoolSort())


def _neg(r):
    return mkbool(z3.Not(r.e)) if isinstance(r, SBool) else (not r)


class Atom:
    kind = "atom"

    def __init__(self, e):
        self.e = e

    def __eq__(self, o):
        if isinstance(o, Atom) and o.kind == self.kind:
            return mkbool(self.e == o.e)
        return False

    def __ne__(self, o):
        return _neg(self.__eq__(o))

    __hash__ = None

    def __bool__(self):
        return True

    def __repr__(self):
        return f"{type(self).__name__}({self.e})"

    def sym_contains(self, o):
        if isinstance(o, Atom):
            return mkbool(z3.Or(self.e == o.e, Sub(o.e, self.e)))
        raise NotEncodable(f"{o!r} in {self!r}")

    def isdigit(self):
        return False

    def isdecimal(self):
        return False

    def strip(self, *a):
        return self


class WordStr(Atom):
    kind = "word"


class NumStr:
    def __init__(self, v):
        self.v = v

    def isdigit(self):
        return True

    def isdecimal(self):
        return True

    def replace(self, old, new, *a):
        if old == "," and new == "":
            return self
        raise NotEncodable(f"replace({old!r}, {new!r}) on a number string")

    def __eq__(self, o):
        if isinstance(o, NumStr):
            return mkbool(self.v == o.v)
        return False

    def __ne__(self, o):
        return _neg(self.__eq__(o))

    __hash__ = None

    def __bool__(self):
        return True

    def __repr__(self):
        return f"NumStr({self.v})"


class CommaNumStr:
    """a page written with thousands separators ("12,345"): not isdigit(); replace(",", "") gives the number."""

    def __init__(self, v):
        self.v = v

    def isdigit(self):
        return False

    def isdecimal(self):
        return False

    def replace(self, old, new, *a):
        if old == "," and new == "":
            return NumStr(self.v)
        raise NotEncodable(f"replace({old!r}, {new!r}) on a comma-separated number")

    def __eq__(self, o):
        if isinstance(o, CommaNumStr):
            return mkbool(self.v == o.v)
        return False

    def __ne__(self, o):
        return _neg(self.__eq__(o))

    __hash__ = None

    def __bool__(self):
        return True

    def __repr__(self):
        return f"CommaNumStr({self.v})"


class PinStr:
    def __init__(self, numeric, q):
        self.numeric, self.q = numeric, q

    def __bool__(self):
        return True

    def __repr__(self):
        return f"PinStr({self.numeric},{self.q})"


class MatchStub:
    def __init__(self, g1):
        self.g1 = g1

    def __getitem__(self, i):
        return self.g1

    def group(self, i=0):
        return self.g1

    def __bool__(self):
        return True


class StructKey:
    def __init__(self, d):
        self.d = d

    def __eq__(self, o):
        if not isinstance(o, StructKey):
            return False
        if set(self.d) != set(o.d):
            return False
        for k in self.d:
            if not _veq(self.d[k], o.d[k]):
                return False
        return True

    def __ne__(self, o):
        return not self.__eq__(o)

    __hash__ = None

    def sym_hash(self):
        return self

    def __repr__(self):
        return f"StructKey({self.d})"


def _veq(a, b):
    if isinstance(a, (list, tuple)) and isinstance(b, (list, tuple)):
        return len(a) == len(b) and all(_veq(x, y) for x, y in zip(a, b))
    if isinstance(a, dict) and isinstance(b, dict):
        return set(a) == set(b) and all(_veq(a[k], b[k]) for k in a)
    r = a == b
    return bool(r)


class SymSet:
    """set with symbolic element equality.  De-duplication (which forks on equality) is deferred until the
    number or the sequence of elements is observed; membership and intersection do not need it."""

    def __init__(self, interp, items=()):
        self.interp = interp
        self.raw = []
        self._dedup = None
        for x in items:
            self.add(x)

    def _same(self, x, y):
        return x is y or bool(self.interp.truth(self.interp.eq(x, y)))

    @property
    def items(self):
        if self._dedup is None:
            out = []
            for x in self.raw:
                if not any(self._same(y, x) for y in out):
                    out.append(x)
            self._dedup = out
        return self._dedup

    def add(self, x):
        if any(y is x for y in self.raw):
            return
        self.raw.append(x)
        self._dedup = None

    def update(self, xs):
        for x in xs:
            self.add(x)

    def __iter__(self):
        return iter(self.items)

    def __len__(self):
        return len(self.items)

    def __bool__(self):
        return bool(self.raw)

    def __and__(self, o):
        out = SymSet(self.interp)
        ys = o.raw if isinstance(o, SymSet) else list(o)
        for x in self.raw:
            for y in ys:
                if self._same(x, y):
                    out.add(x)
                    break
        return out

    __rand__ = __and__

    def sym_contains(self, x):
        return any(self._same(y, x) for y in self.raw)


class SymDD:
    """defaultdict with symbolic key equality; insertion ordered."""

    def __init__(self, interp, factory):
        self.interp, self.factory = interp, factory
        self.keys_, self.vals = [], []

    def _find(self, k):
        for i, kk in enumerate(self.keys_):
            if kk is k or bool(self.interp.truth(self.interp.eq(kk, k))):
                return i
        return None

    def __getitem__(self, k):
        i = self._find(k)
        if i is None:
            self.keys_.append(k)
            self.vals.append(self.factory())
            i = len(self.keys_) - 1
        return self.vals[i]

    def __setitem__(self, k, v):
        i = self._find(k)
        if i is None:
            self.keys_.append(k)
            self.vals.append(v)
        else:
            self.vals[i] = v

    _MISSING = object()

    def pop(self, k, default=_MISSING):
        i = self._find(k)
        if i is None:
            if default is SymDD._MISSING:
                raise KeyError(k)
            return default
        self.keys_.pop(i)
        return self.vals.pop(i)

    def __delitem__(self, k):
        self.pop(k)

    def __contains__(self, k):
        return self._find(k) is not None

    def get(self, k, default=None):
        i = self._find(k)
        return default if i is None else self.vals[i]

    def setdefault(self, k, default=None):
        i = self._find(k)
        if i is None:
            self.keys_.append(k)
            self.vals.append(default)
            return default
        return self.vals[i]

    def items(self):
        return list(zip(self.keys_, self.vals))

    def keys(self):
        return list(self.keys_)

    def values(self):
        return list(self.vals)

    def __iter__(self):
        return iter(self.keys_)

    def __len__(self):
        return len(self.keys_)

    def sym_contains(self, k):
        return self._find(k) is not None


def install(it):
    """per-interpreter models for the containers and conversions the resolver uses."""
    import collections
    import re

    import eyecite.utils as U

    it.stubs[set] = lambda items=(): SymSet(it, items)
    def mk_dd(f=None, init=(), **kw):
        d = SymDD(it, f)
        pairs = list(init.items()) if hasattr(init, "items") else list(init)
        for k, v in pairs + list(kw.items()):
            d[k] = v
        return d

    it.stubs[collections.defaultdict] = mk_dd
    def to_int(x=0, *a):
        if isinstance(x, NumStr):
            return SInt(x.v)
        if isinstance(x, (CommaNumStr, WordStr, Atom)):
            raise ValueError(f"invalid literal for int() with base 10: {x!r}")
        return int(x, *a)

    it.stubs[int] = to_int
    it.stubs[list] = lambda x=(): list(x)

    def mk_dict(x=(), **kw):
        pairs = list(x.items()) if hasattr(x, "items") else list(x)
        if not any(type(k).__module__.startswith("eyecite") or symex.deep_sym(k) for k, _ in pairs):
            d = dict(pairs)
            d.update(kw)
            return d
        out = SymDD(it, None)
        for k, v in pairs:
            out[k] = v
        return out

    it.stubs[dict] = mk_dict
    it.stubs[U.hash_sha256] = lambda d: StructKey(dict(d))

    def re_match(pat, s, *a):
        if isinstance(s, PinStr):
            if pat != r"(?:at )?(\d+)":
                raise NotEncodable(f"re.match({pat!r}) on a symbolic pin cite")
            return MatchStub(NumStr(s.q)) if s.numeric else None
        if isinstance(s, (Atom, NumStr)):
            raise NotEncodable(f"re.match({pat!r}) on {s!r}")
        return re.match(pat, s, *a)

    it.stubs[re.match] = re_match
