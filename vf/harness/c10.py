"""C10 — annotations enclose exactly the cited characters, in order (shares the harness of C09)."""
from vf.harness import c09


def check(rep):
    return c09.run_property(rep, "C10")


replay_file = c09.replay_file
