#!/bin/bash
# tools/import_r4.sh <Cxx> : copy a round-4 sub-agent deliverable (/tmp/r4/Cxx/{A,B}) into seeded/Cxx-4A, -4B
set -e
p=$1
for v in A B; do
  s=/tmp/r4/$p/$v; d=/verif/seeded/$p-4$v
  [ -s $s/patch.diff ] || { echo "no $s/patch.diff"; continue; }
  mkdir -p $d; cp $s/patch.diff $s/demo.py $d/; [ -f $s/meta.json ] && cp $s/meta.json $d/ || echo '{}' > $d/meta.json
  echo imported $d
done
