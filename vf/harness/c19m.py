"""C19 (c): find_reference_citations_from_markup — offsets of markup-derived reference citations.

Symbolically executes the real function with two real SpanUpdater objects (plain->markup and
markup->plain, built by the interpreted SpanUpdater.__init__ from a symbolic diff script and its
inverse), a symbolic citation span in the plain text and a contract stub for re.finditer over the markup.
Asserted on every path: 0 <= full start <= start <= end <= full end <= len(plain) and the reference does
not start before the citation it derives from.
Assumption: the citation's span start lies in a block that is equal in plain text and markup (the
citation text was extracted from the plain text and is literally present in the markup).
"""
import z3

from vf import common, symex
from vf.symex import SInt, TStr, lift_int, mval

OPK = ["equal", "insert", "delete", "replace"]


class M1:
    """a regex match over the markup slice: whole span and group 1 inside it."""

    def __init__(self, s, e, g1s, g1e, base):
        self.s, self.e, self.g1s, self.g1e, self.base = s, e, g1s, g1e, base

    def start(self, k=0):
        return SInt(self.g1s - self.base if k == 1 else self.s - self.base)

    def end(self, k=0):
        return SInt(self.g1e - self.base if k == 1 else self.e - self.base)

    def groupdict(self):
        return {"plaintiff": "Foo"}


class H(common.Harness):
    def __init__(self, params):
        super().__init__(params)
        import re

        import eyecite.annotate as AN
        import eyecite.find as F
        import eyecite.models as M

        self.AN, self.F, self.M = AN, F, M
        self.K = params["K"]
        self.np, self.nm = z3.Int("np"), z3.Int("nm")
        self.eng.assume(z3.And(self.np >= 1, self.nm >= 1))
        self.interp.stubs[AN.SpanUpdater.get_diff_steps] = self.diff
        self.interp.stubs[re.finditer] = self.finditer

    def diff(self, a, b):
        return list(self.ops_pm if a is self.plain else self.ops_mp)

    def finditer(self, pattern, text, flags=0):
        eng = self.eng
        sg = text.single() if isinstance(text, TStr) and text.atoms else None
        if sg is None:
            return []
        lo, hi = sg
        out = []
        n = eng.choose([z3.Int("nmatches") == k for k in range(3)])
        cur = lo
        for j in range(n):
            s, e, a, b = (eng.fresh_int(x) for x in ("ms", "me", "g1s", "g1e"))
            # '<em>' ... name ... '</em>': at least the tag characters around a non-empty name
            eng.add(cur <= s, s + 3 <= a, a < b, b + 4 <= e, e <= hi)
            out.append(M1(s, e, a, b, lo))
            cur = e
        self.matches = out
        return out

    def run(self):
        eng, M, AN = self.eng, self.M, self.AN
        self.matches = []
        la, lb = z3.IntVal(0), z3.IntVal(0)
        ops_pm, ops_mp, script, blocks = [], [], [], []
        prev_equal = None
        nblocks = 1 + eng.choose([z3.Int("nblocks") == j for j in range(1, self.K + 1)])
        for i in range(nblocks):
            k = eng.choose([z3.Int(f"op{i}") == j for j in range(4)])
            is_eq = k == 0
            if prev_equal is not None and prev_equal == is_eq:
                raise symex.Infeasible()
            prev_equal = is_eq
            a, b = z3.Int(f"amt_a{i}"), z3.Int(f"amt_b{i}")
            if k == 0:
                eng.add(a >= 1, b == a)
                ops_pm.append(("=", SInt(a)))
                ops_mp.append(("=", SInt(a)))
            elif k == 1:
                eng.add(a == 0, b >= 1)
                ops_pm.append(("+", SInt(b)))
                ops_mp.append(("-", SInt(b)))
            elif k == 2:
                eng.add(a >= 1, b == 0)
                ops_pm.append(("-", SInt(a)))
                ops_mp.append(("+", SInt(a)))
            else:
                eng.add(a >= 1, b >= 1)
                ops_pm += [("-", SInt(a)), ("+", SInt(b))]
                ops_mp += [("-", SInt(b)), ("+", SInt(a))]
            blocks.append((OPK[k], la, la + a))
            la, lb = la + a, lb + b
            script.append((OPK[k], a, b))
        eng.add(la == self.np, lb == self.nm)
        self.ops_pm, self.ops_mp, self.script = ops_pm, ops_mp, script
        self.plain = TStr.base(self.np)
        self.markup = TStr.base(self.nm)
        p2m = self.interp.instantiate(AN.SpanUpdater, (self.plain, self.markup), {})
        m2p = self.interp.instantiate(AN.SpanUpdater, (self.markup, self.plain), {})

        class Doc:
            pass

        doc = Doc()
        doc.plain_text, doc.markup_text, doc.plain_to_markup, doc.markup_to_plain = self.plain, self.markup, p2m, m2p
        s, e = z3.Int("s"), z3.Int("e")
        eng.add(0 <= s, s < e, e <= self.np)
        # the citation starts inside an equal block
        eng.add(z3.Or(*[z3.And(lo <= s, s < hi) for kind, lo, hi in blocks if kind == "equal"]) if any(k == "equal" for k, _, _ in blocks) else z3.BoolVal(False))
        self.s, self.e = s, e
        tok = M.CitationToken(TStr.sub(s, e, self.np), SInt(s), SInt(e), groups={"volume": "1", "reporter": "U.S.", "page": "1"})
        c = M.FullCaseCitation(tok, 0)
        c.metadata.plaintiff = "Foo"
        return self.interp.call(self.F.find_reference_citations_from_markup, (doc, [c]), {})

    def witness(self, m):
        return {"script": [(k, mval(m, a), mval(m, b)) for k, a, b in self.script], "citation_span": (mval(m, self.s), mval(m, self.e)), "matches": [(mval(m, x.s), mval(m, x.e), mval(m, x.g1s), mval(m, x.g1e)) for x in self.matches]}

    def describe(self, kind, out):
        m = self.eng.path_model()
        return self.witness(m) if m is not None else {}

    def judge(self, kind, out):
        if kind == "exc":
            return [self.check("C19:markup:no_exception:" + type(out).__name__, False, self.witness)]
        conds = []
        for r in out:
            s0, s1 = lift_int(r.span_start), lift_int(r.span_end)
            f0, f1 = lift_int(r.full_span_start), lift_int(r.full_span_end)
            conds.append(z3.And(0 <= f0, f0 <= s0, s0 <= s1, s1 <= f1, f1 <= self.np, s0 >= self.s))
        return [self.check("C19:markup:reference_offsets_valid_and_not_before_its_citation", z3.And(*conds) if conds else z3.BoolVal(True), self.witness)]


def make(params):
    return H(params)


def realise(w):
    """plain / markup texts realising the script, with <em>Foo</em> placed where the model's matches are if possible."""
    from vf.harness.c12 import distinct_text

    tot = sum(a + b for _, a, b in w["script"])
    pool = distinct_text(tot + 4)
    plain, markup, i = [], [], 0
    for k, a, b in w["script"]:
        if k == "equal":
            seg = pool[i : i + a]
            i += a
            plain.append(seg)
            markup.append(seg)
        else:
            plain.append(pool[i : i + a])
            i += a
            markup.append(pool[i : i + b])
            i += b
    return "".join(plain), "".join(markup)


# ---------------------------------------------------------------- the search pattern itself (regular-language clause)
PARTIES = {"plaintiff": "Baz", "defendant": "Foo Bar"}
# second configuration: names the name-validity rule rejects (a disallowed multi-word name, an abbreviation) next
# to one valid name - the search patterns may only look for the valid one
PARTIES_INVALID = {"plaintiff": "Baz", "defendant": "United States", "resolved_case_name_short": "Corp."}
CONFIGS = {"valid_names": PARTIES, "with_invalid_names": PARTIES_INVALID}


def valid_names(parties):
    """the names of a configuration that pass the repository's own name-validity rule (taken as given)."""
    from eyecite.utils import is_valid_name

    return [v for v in parties.values() if is_valid_name(v)]


def spec_src(parties, sep):
    import re as _re

    return "|".join(sep.join(_re.escape(w) for w in v.split()) for v in valid_names(parties))


def captured_pattern(parties=None):
    parties = parties or PARTIES
    """run the real find_reference_citations_from_markup (interpreted) on a concrete document with a stub at
    re.finditer that records the pattern and flags the code searches the markup with."""
    import re

    import eyecite.annotate as AN
    import eyecite.find as F
    import eyecite.models as M

    eng = symex.Engine()
    symex.ENGINE = eng
    it = symex.Interp(eng)
    it.native_keys_ok = True
    got = []

    def finditer(pattern, text, flags=0):
        got.append((str(pattern), int(flags)))
        return []

    it.stubs[re.finditer] = finditer
    P_, D_ = parties["plaintiff"], parties["defendant"]
    plain = f"{P_} v. {D_}, 1 U.S. 1. Later Baz."
    markup = f"<em>{P_}</em> v. {D_}, 1 U.S. 1. Later <i>Baz</i>."

    class Doc:
        pass

    doc = Doc()
    doc.plain_text, doc.markup_text = plain, markup
    doc.plain_to_markup, doc.markup_to_plain = AN.SpanUpdater(plain, markup), AN.SpanUpdater(markup, plain)
    s = plain.index("1 U.S. 1")
    c = M.FullCaseCitation(M.CitationToken("1 U.S. 1", s, s + 8, groups={"volume": "1", "reporter": "U.S.", "page": "1"}), 0)
    for k, v in parties.items():
        setattr(c.metadata, k, v)
    outs = list(eng.explore(lambda: it.call(F.find_reference_citations_from_markup, (doc, [c]), {})))
    return got, outs


def captured_pincite_pattern(parties=None):
    parties = parties or PARTIES
    """the pattern extract_pincited_reference_citations compiles for the same citation."""
    import re

    import eyecite.find as F
    import eyecite.models as M

    eng = symex.Engine()
    symex.ENGINE = eng
    it = symex.Interp(eng)
    it.native_keys_ok = True
    got = []

    class P:
        def finditer(self, text):
            return []

    def compile_(pattern, flags=0):
        got.append((str(pattern), int(flags)))
        return P()

    it.stubs[re.compile] = compile_

    # the same search written with the module-level function
    def finditer_(pattern, text, flags=0):
        got.append((str(pattern), int(flags)))
        return []

    it.stubs[re.finditer] = finditer_
    plain = f"{parties['plaintiff']} v. {parties['defendant']}, 1 U.S. 1. Later Baz at 5."
    s = plain.index("1 U.S. 1")
    c = M.FullCaseCitation(M.CitationToken("1 U.S. 1", s, s + 8, groups={"volume": "1", "reporter": "U.S.", "page": "1"}), 0)
    for k, v in parties.items():
        setattr(c.metadata, k, v)
    outs = list(eng.explore(lambda: it.call(F.extract_pincited_reference_citations, (c, plain), {})))
    return got, outs


def pincite_pattern_clause(rep):
    for cfg, parties in CONFIGS.items():
        _pincite_pattern_clause(rep, cfg, parties)


def _pincite_pattern_clause(rep, cfg, parties):
    """every string the name-pincite pattern can match contains one of the citation's party names that pass
    the name-validity rule."""
    import time

    from vf import rex

    got, outs = captured_pincite_pattern(parties)
    SEC = "pincite_pattern_" + cfg
    rep.sections[SEC] = {"parties": parties, "valid": valid_names(parties), "captured": got}
    if len(got) != 1 or len(outs) != 1 or outs[0][0] != "ok":
        rep.inconc(f"pincite pattern clause: expected one re.compile / re.finditer call, got {got} / {outs[:1]}")
        return
    pattern, flags = got[0]
    t0 = time.time()
    try:
        # word-boundary assertions only restrict the pattern: dropping them enlarges the language, so an
        # inclusion proved for the enlarged language holds for the pattern (a witness is replayed anyway)
        import re._constants as sc

        def drop_boundaries(seq):
            keep = []
            for op, av in seq:
                if op == sc.AT and av in (sc.AT_BOUNDARY, sc.AT_NON_BOUNDARY):
                    continue
                if op == sc.SUBPATTERN:
                    drop_boundaries(av[3])
                elif op == sc.BRANCH:
                    for alt in av[1]:
                        drop_boundaries(alt)
                elif op in (sc.MAX_REPEAT, sc.MIN_REPEAT):
                    drop_boundaries(av[2])
                keep.append((op, av))
            seq[:] = keep

        pp = rex.parse(pattern, flags)
        drop_boundaries(pp)
        R = rex.tr(pp, pp.state.flags)
        spec = rex.translate(spec_src(parties, " "), 0)
    except rex.Unsupported as ex:
        rep.inconc(f"pincite pattern clause: pattern not translatable: {ex}")
        return
    full = z3.Full(rex.RS)
    verdict, w = rex.solve_in(z3.Intersect(R, z3.Complement(z3.Concat(full, spec, full))), timeout_ms=120000, seed=common.seed())
    rep.queries += 1
    rep.solver_s += time.time() - t0
    rep.sections[SEC].update({"verdict": verdict, "seconds": round(time.time() - t0, 2)})
    if verdict == "unsat":
        rep.oblige(1)
        return
    rep.oblige(1, ok=False)
    if verdict != "sat":
        rep.inconc("pincite pattern clause: solver verdict unknown")
        return
    w = rex.z3_unescape(w)
    from eyecite import get_citations
    import eyecite.models as M
    import re

    doc = f"{parties['plaintiff']} v. {parties['defendant']}, 1 U.S. 1 (1999). Later {w} again."
    rep.replays += 1
    try:
        cs = get_citations(doc)
    except Exception as ex:
        rep.inconc(f"pincite pattern clause: replay raised {ex!r}")
        return
    bad = [doc[r.span()[0] : r.span()[1]] for r in cs if isinstance(r, M.ReferenceCitation) and not re.search(spec_src(parties, " "), doc[r.span()[0] : r.span()[1]])]
    if bad:
        rep.violation(f"get_citations({doc!r}) returns reference citation(s) whose text {bad} contains no valid party name {valid_names(parties)} of the citation (pattern {pattern!r}, flags {flags})", {"kind": "text", "text": doc, "spec": spec_src(parties, " ")})
    else:
        rep.spurious += 1
        rep.inconc(f"pincite pattern clause: witness {w!r} did not reproduce")


def pattern_clause(rep):
    for cfg, parties in CONFIGS.items():
        _pattern_clause(rep, cfg, parties)


def _pattern_clause(rep, cfg, parties):
    """every string the markup search pattern can match contains, case-sensitively, one of the citation's
    party names that pass the name-validity rule (its words separated by whitespace) - inclusion of regular
    languages, decided by z3."""
    import time

    from vf import rex

    got, outs = captured_pattern(parties)
    SEC = "markup_pattern_" + cfg
    rep.sections[SEC] = {"parties": parties, "valid": valid_names(parties), "captured": got}
    if len(got) != 1 or len(outs) != 1 or outs[0][0] != "ok":
        rep.inconc(f"markup pattern clause: expected one re.finditer call on the concrete document, got {got} / {outs[:1]}")
        return
    pattern, flags = got[0]
    t0 = time.time()
    try:
        R = rex.translate(pattern, flags)
        spec = rex.translate(spec_src(parties, r"\s+"), 0)
    except rex.Unsupported as ex:
        rep.inconc(f"markup pattern clause: pattern not translatable: {ex}")
        return
    full = z3.Full(rex.RS)
    verdict, w = rex.solve_in(z3.Intersect(R, z3.Complement(z3.Concat(full, spec, full))), timeout_ms=120000, seed=common.seed())
    rep.queries += 1
    rep.solver_s += time.time() - t0
    rep.sections[SEC].update({"verdict": verdict, "seconds": round(time.time() - t0, 2)})
    if verdict == "unsat":
        rep.oblige(1)
        return
    rep.oblige(1, ok=False)
    if verdict != "sat":
        rep.inconc("markup pattern clause: solver verdict unknown")
        return
    w = rex.z3_unescape(w)
    # replay on the real code: a document whose markup contains the witness after the citation
    from eyecite import clean_text, get_citations
    import eyecite.models as M

    doc = f"<p>{parties['plaintiff']} v. {parties['defendant']}, 1 U.S. 1 (1999). Later {w} again.</p>"
    rep.replays += 1
    try:
        cs = get_citations(markup_text=doc, clean_steps=["html", "all_whitespace"])
        plain = clean_text(doc, ["html", "all_whitespace"])
    except Exception as ex:
        rep.inconc(f"markup pattern clause: replay raised {ex!r}")
        return
    import re

    bad = [plain[r.span()[0] : r.span()[1]] for r in cs if isinstance(r, M.ReferenceCitation) and not re.search(spec_src(parties, r"\s+"), plain[r.span()[0] : r.span()[1]])]
    if bad:
        rep.violation(f"get_citations(markup_text={doc!r}) returns reference citation(s) whose text {bad} contains no valid party name {valid_names(parties)} of the citation (pattern {pattern!r}, flags {flags})", {"kind": "markup", "markup": doc, "spec": spec_src(parties, r"\s+")})
    else:
        rep.spurious += 1
        rep.inconc(f"markup pattern clause: witness {w!r} did not reproduce")
