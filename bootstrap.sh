#!/bin/bash
# Idempotent, offline bootstrap of the overlay interpreter used by every check:
#   /verif/.venv = venv of /venv/bin/python + .pth adding /venv's site-packages
#   (eyecite's own dependencies; eyecite itself is the editable install of /repo)
#   + z3-solver from the offline wheelhouse.
set -e
HERE="$(cd "$(dirname "$0")" && pwd)"
VENV="$HERE/.venv"
if [ -x "$VENV/bin/python" ] && "$VENV/bin/python" -c "import z3, eyecite" >/dev/null 2>&1; then
  exit 0
fi
(
  flock 9
  if [ -x "$VENV/bin/python" ] && "$VENV/bin/python" -c "import z3, eyecite" >/dev/null 2>&1; then
    exit 0
  fi
  rm -rf "$VENV"
  /venv/bin/python -m venv "$VENV"
  SP="$VENV/lib/python3.12/site-packages"
  printf "import site; site.addsitedir('/venv/lib/python3.12/site-packages')\n/repo\n" > "$SP/overlay.pth"
  PIP_NO_INDEX=1 "$VENV/bin/pip" install -q --no-index --find-links /opt/veriftools/wheels z3-solver >/dev/null
  "$VENV/bin/python" -c "import z3, eyecite"
) 9>"$HERE/.bootstrap.lock"
