"""C16 — citation equality identifies the cited document, not its spelling or context.

Symbolically executes the real __hash__/__eq__ of every citation class and of
Resource, corrected_reporter and guess_edition on pairs (quick) / triples
(thorough) of citation objects with symbolic volume/page/reporter atoms, candidate
edition sets drawn from a pool of two editions, and *poisoned* context metadata
(any read of pin cite, year, parties, parenthetical, spans raises).
"""
import z3

from vf import absval, common, symex
from vf.absval import Atom, NumStr, WordStr
from vf.harness.c06 import EdStub
from vf.symex import SInt, mval

KINDS = ["full_case", "short_case", "full_law", "full_journal", "id", "unknown"]
# candidate-edition configurations for case citations: (exact, variation) as tuples of pool indexes
CONFIGS = [((), ()), ((0,), ()), ((1,), ()), ((0, 1), ()), ((), (0,)), ((), (0, 1)), ((0,), (1,))]


class ContextRead(Exception):
    """raised when equality/hash code looks at context that must not matter."""


class Poison:
    def _boom(self, *a, **k):
        raise ContextRead("equality read a context field (pin cite / year / parties / parenthetical / span)")

    __eq__ = __ne__ = __bool__ = __str__ = __repr__ = __len__ = __iter__ = __lt__ = _boom
    __hash__ = None


class PoisonMeta:
    def __getattr__(self, name):
        raise ContextRead(f"equality read metadata.{name}")


class H(common.Harness):
    def __init__(self, params):
        super().__init__(params)
        import eyecite.models as M

        self.M = M
        self.N = params["N"]
        absval.install(self.interp)

    def mk(self, i, pool):
        M, eng = self.M, self.eng
        kind = KINDS[eng.choose([z3.Int(f"kind{i}") == j for j in range(len(KINDS))])]
        d = {"kind": kind, "vol": None, "rep": None, "page": None, "placeholder": False, "cfg": None}
        tok = M.CitationToken("1 X 1", 0, 5, groups={"volume": "1", "reporter": "X", "page": "1"})
        if kind in ("full_case", "short_case", "full_journal"):
            cls = {"full_case": M.FullCaseCitation, "short_case": M.ShortCaseCitation, "full_journal": M.FullJournalCitation}[kind]
            c = cls(tok, i)
            d["vol"], d["rep"], d["page"] = (eng.fresh_int(x) for x in ("vol", "rep", "page"))
            eng.add(d["page"] >= 0)
            page = NumStr(d["page"])
            if eng.choose([z3.Bool(f"ph{i}"), z3.Not(z3.Bool(f"ph{i}"))]) == 0:
                page, d["placeholder"] = None, True
            c.groups = {"volume": Atom(d["vol"]), "reporter": Atom(d["rep"]), "page": page}
            if kind != "full_journal" and (not self.params.get("xg_choice") or eng.choose([z3.Bool(f"xg{i}"), z3.Not(z3.Bool(f"xg{i}"))]) == 0):
                # the other groups case extractors of the database capture (a year inside the reporter's own
                # pattern, a nominative reporter in parentheses): arbitrary values that must not matter
                d["xg"] = {"year": eng.fresh_int("gyear"), "reporter_nominative": eng.fresh_int("gnomr"), "volume_nominative": eng.fresh_int("gnomv")}
                c.groups.update({k: Atom(v) for k, v in d["xg"].items()})
            if kind != "full_journal":
                cfg = CONFIGS[eng.choose([z3.Int(f"cfg{i}") == j for j in range(len(CONFIGS))])]
                d["cfg"] = cfg
                c.exact_editions = tuple(pool[j] for j in cfg[0])
                c.variation_editions = tuple(pool[j] for j in cfg[1])
                c.all_editions = c.exact_editions + c.variation_editions
                c.edition_guess = None
                c.year = None
                self.interp.call(M.ResourceCitation.guess_edition, (c,), {})
            else:
                c.exact_editions = c.variation_editions = c.all_editions = ()
                c.edition_guess = None
            c.year = Poison()
        elif kind == "full_law":
            c = M.FullLawCitation(tok, i)
            d["rep"], d["vol"] = eng.fresh_int("rep"), eng.fresh_int("sec")
            c.groups = {"reporter": Atom(d["rep"]), "section": Atom(d["vol"])}
            c.exact_editions = c.variation_editions = c.all_editions = ()
            c.edition_guess = None
            c.year = Poison()
        elif kind == "id":
            c = M.IdCitation(M.IdToken("id.", 0, 3), i)
        else:
            c = M.UnknownCitation(M.SectionToken("§", 0, 1), i)
        # context that must not matter
        c.metadata = PoisonMeta()
        c.span_start = c.span_end = c.full_span_start = c.full_span_end = Poison()
        c.index = Poison()
        return c, d

    def crep(self, d):
        if d.get("forced_ed") is not None:
            return d["forced_ed"]
        cfg = d["cfg"]
        if cfg is None:
            return d["rep"]
        cands = cfg[0] or cfg[1]
        return self.pool_ids[cands[0]] if len(cands) == 1 else d["rep"]

    def spec_equal(self, a, b, same_object):
        if same_object:
            return z3.BoolVal(True)
        if a["kind"] != b["kind"]:
            return z3.BoolVal(False)
        if a["kind"] in ("id", "unknown"):
            return z3.BoolVal(False)
        if a["kind"] in ("full_case", "short_case"):
            if a["placeholder"] or b["placeholder"]:
                return z3.BoolVal(False)
            return z3.And(a["vol"] == b["vol"], a["page"] == b["page"], self.crep(a) == self.crep(b))
        if a["kind"] == "full_journal" and (a["placeholder"] or b["placeholder"]):
            return z3.BoolVal(False)  # "citations with a placeholder page ... are equal only to themselves"
        return None  # law / journal otherwise: only the equivalence laws and cross-kind inequality are claimed

    def run(self):
        eng = self.eng
        self.pool_ids = [eng.fresh_int("ed0"), eng.fresh_int("ed1")]
        eng.add(self.pool_ids[0] != self.pool_ids[1])
        pool = [EdStub(Atom(x), EdStub(Atom(eng.fresh_int("edrep")))) for x in self.pool_ids]
        objs, ds = [], []
        for i in range(self.N):
            c, d = self.mk(i, pool)
            objs.append(c)
            ds.append(d)
        self.ds = ds
        self.orig0 = dict(ds[0])
        it, M = self.interp, self.M

        def observe():
            eqm, heq, req = {}, {}, {}
            hashes = [it.hash_of(c) for c in objs]
            res = [it.instantiate(M.Resource, (c,), {}) for c in objs]
            for i in range(self.N):
                for j in range(self.N):
                    eqm[(i, j)] = bool(it.truth(it.eq(objs[i], objs[j])))
                    heq[(i, j)] = bool(it.truth(it.eq(hashes[i], hashes[j]))) if not (isinstance(hashes[i], int) and isinstance(hashes[j], int)) else hashes[i] == hashes[j]
                    req[(i, j)] = bool(it.truth(it.eq(res[i], res[j])))
            return eqm, heq, req

        first = observe()
        # history: a citation that has been compared/hashed is then corrected through its public attributes
        # (page, or the guessed edition); equality must follow the new values
        self.mutation = None
        d0 = ds[0]
        if d0["kind"] in ("full_case", "short_case") and not d0["placeholder"] and self.params.get("history", True):
            which = eng.choose([z3.Int("mutation") == k for k in range(3)])
            if which == 1:
                newp = eng.fresh_int("newpage")
                eng.add(newp >= 0)
                objs[0].groups["page"] = NumStr(newp)
                self.ds = ds = [dict(d0, page=newp)] + ds[1:]
                self.mutation = "page"
            elif which == 2:
                newed = eng.fresh_int("newed")
                objs[0].edition_guess = EdStub(Atom(newed), EdStub(Atom(eng.fresh_int("edrep"))))
                self.ds = ds = [dict(d0, forced_ed=newed)] + ds[1:]
                self.mutation = "edition_guess"
        second = observe() if self.mutation else None
        return first, second

    def witness(self, m):
        out = []
        for d in self.ds:
            w = {"kind": d["kind"], "placeholder": d["placeholder"], "cfg": d["cfg"]}
            for k in ("vol", "rep", "page"):
                if d[k] is not None:
                    w[k] = mval(m, d[k])
            if d.get("xg"):
                w["xg"] = {k: mval(m, v) for k, v in d["xg"].items()}
            out.append(w)
        w = {"citations": out, "pool": [mval(m, x) for x in self.pool_ids], "mutation": getattr(self, "mutation", None)}
        if w["mutation"] == "page":
            w["orig_page"] = mval(m, self.orig0["page"])
        if w["mutation"] == "edition_guess":
            w["new_edition"] = mval(m, self.ds[0]["forced_ed"])
        return w

    def describe(self, kind, out):
        m = self.eng.path_model()
        return {"path_model": self.witness(m) if m is not None else None, "outcome": kind}

    def judge(self, kind, out):
        if kind == "exc":
            nm = "C16:context_not_read" if isinstance(out, ContextRead) else "C16:no_exception:" + type(out).__name__
            return [self.check(nm, False, self.witness)]
        first, second = out
        N = self.N
        fs = []
        if second is not None:
            # after the correction, the specification is evaluated on the new attribute values (self.ds)
            eqm2 = second[0]
            conds2 = []
            for i in range(N):
                for j in range(N):
                    sp = self.spec_equal(self.ds[i], self.ds[j], i == j)
                    if sp is not None:
                        conds2.append(sp if eqm2[(i, j)] else z3.Not(sp))
            cons2 = all(second[0][k] == second[1][k] == second[2][k] for k in second[0])
            fs.append(self.check("C16:equality_follows_corrected_attributes", z3.And(z3.BoolVal(cons2), *conds2) if conds2 else z3.BoolVal(cons2), self.witness))
            # the first observation was made on the original attribute values
            self_ds_now = self.ds
            self.ds = [dict(self.ds[0], page=self.orig0["page"], forced_ed=None)] + self.ds[1:]
        eqm, heq, req = first
        laws = all(eqm[(i, i)] for i in range(N)) and all(eqm[(i, j)] == eqm[(j, i)] for i in range(N) for j in range(N))
        laws = laws and all((not (eqm[(i, j)] and eqm[(j, k)])) or eqm[(i, k)] for i in range(N) for j in range(N) for k in range(N))
        fs.append(self.check("C16:equivalence_relation", z3.BoolVal(laws), self.witness))
        cons = all(eqm[k] == heq[k] == req[k] for k in eqm)
        fs.append(self.check("C16:eq_hash_resource_agree", z3.BoolVal(cons), self.witness))
        conds = []
        for i in range(N):
            for j in range(N):
                sp = self.spec_equal(self.ds[i], self.ds[j], i == j)
                if sp is None:
                    continue
                conds.append(sp if eqm[(i, j)] else z3.Not(sp))
        fs.append(self.check("C16:equal_iff_same_volume_page_normalised_reporter", z3.And(*conds) if conds else z3.BoolVal(True), self.witness))
        if second is not None:
            self.ds = self_ds_now
        return fs


class HPost(common.Harness):
    """placeholder pages: CitationBase.__post_init__ turns the page group into None exactly when the page
    text consists of underscores - for every page text of <= N symbolic characters."""

    def __init__(self, params):
        super().__init__(params)
        import eyecite.models as M

        from vf import symre

        self.M, self.symre = M, symre
        self.N = params["N"]
        symre.install(self.interp)

    def run(self):
        eng, M = self.eng, self.M
        n = eng.choose([z3.Int("len") == k for k in range(self.N + 1)])
        page = self.symre.CStr.fresh(eng, n)
        for ch in page.chars:
            eng.add(ch != 10)  # a page group never contains a line break (every page pattern is \d / letters / _ )
        self.page = page
        cls = [M.FullCaseCitation, M.ShortCaseCitation, M.FullJournalCitation][eng.choose([z3.Int("cls") == k for k in range(3)])]
        tok = M.CitationToken("1 X 1", 0, 5, groups={"volume": "1", "reporter": "X", "page": page})
        c = self.interp.instantiate(cls, (tok, 0), {})
        return c

    def witness(self, m):
        return {"page": self.page.concrete(m)}

    def describe(self, kind, out):
        m = self.eng.path_model()
        return self.witness(m) if m is not None else {}

    def judge(self, kind, out):
        if kind == "exc":
            return [self.check("C16:no_exception:" + type(out).__name__, False, self.witness)]
        got_none = out.groups["page"] is None
        chars = self.page.chars
        all_us = z3.And(*[ch == 0x5F for ch in chars]) if chars else z3.BoolVal(False)
        return [self.check("C16:placeholder_page_iff_all_underscores", all_us if got_none else z3.Not(all_us), self.witness)]


# ---------------------------------------------------------------- normal form: re-parse and fixed point
NORM_REPORTERS = [
    # (written reporter string, canonical edition string it is unambiguously mapped to)
    ("U.S.", "U.S."), ("U. S.", "U.S."), ("Misc. 3d", "Misc. 3d"), ("Misc 3d", "Misc. 3d"), ("NY Slip Op", "NY Slip Op"), ("N.Y. Slip Op.", "NY Slip Op"),
    # a variation of two editions of different reporters (both called 'Dall.'): no edition can be guessed, the
    # citation is equal only to citations spelled the same way, so its normal form must keep the spelling
    ("Dallas", None),
]
NORM_SUFFIXES = ["", "[U]", "(U)", "[A]", "(A)"]


class HNorm(common.Harness):
    """corrected_citation() of a citation of the shape  V R P  (V, P arbitrary digits, P optionally followed by
    an unpublished-opinion marker, R a spelling the database maps unambiguously to an edition): the text is
    V <canonical reporter> <standardised page>; the citation that text is parsed into (groups = its three
    components, the canonical edition as exact candidate) is equal to the original (==, hash) and its own
    normal form is the same text."""

    def __init__(self, params):
        super().__init__(params)
        import eyecite.models as M
        import eyecite.utils as U
        from vf import symre

        self.M, self.symre = M, symre
        symre.install(self.interp)
        self.interp.stubs[U.hash_sha256] = lambda d: absval.StructKey(dict(d))

    def digits(self, tag, n):
        out = []
        for i in range(n):
            d = z3.Int(f"{tag}{i}")
            self.eng.add(d >= 48, d <= 57)
            if i == 0 and tag == "v":
                self.eng.add(d >= 49)
            out.append(d)
        return out

    def cite(self, vol, rep, page, edition):
        M, CStr = self.M, self.symre.CStr
        sp = [32]
        data = CStr(list(vol) + sp + [ord(c) for c in rep] + sp + list(page))
        if isinstance(edition, tuple):
            ex_, va_ = (), edition
        else:
            ex_, va_ = ((edition,), ()) if rep == edition.short_name else ((), (edition,))
        tok = M.CitationToken(data, 0, len(data), groups={"volume": CStr(list(vol)), "reporter": rep, "page": CStr(list(page))}, exact_editions=ex_, variation_editions=va_)
        # built through the interpreted __post_init__ (placeholder-page test on the symbolic page included)
        c = self.interp.instantiate(M.FullCaseCitation, (tok, 0), {"exact_editions": tok.exact_editions, "variation_editions": tok.variation_editions})
        c.edition_guess = None
        self.interp.call(M.ResourceCitation.guess_edition, (c,), {})
        return c

    def run(self):
        eng, M = self.eng, self.M
        import eyecite.tokenizers as T

        ri = eng.choose([z3.Int("reporter") == k for k in range(len(NORM_REPORTERS))])
        rep, canon = NORM_REPORTERS[ri]
        self.ambiguous = canon is None
        if canon is None:
            canon = rep
            edition = tuple(T.EDITIONS_LOOKUP[rep])
        else:
            edition = T.EDITIONS_LOOKUP[canon][0]
        nv = 1 + eng.choose([z3.Int("nvol") == k for k in range(2)])
        np_ = 1 + eng.choose([z3.Int("npage") == k for k in range(2)])
        suf = NORM_SUFFIXES[eng.choose([z3.Int("suffix") == k for k in range(len(NORM_SUFFIXES))])]
        self.vol, self.page = self.digits("v", nv), self.digits("p", np_) + [ord(c) for c in suf]
        self.rep, self.canon, self.suf = rep, canon, suf
        c = self.cite(self.vol, rep, self.page, edition)
        text = self.interp.call(M.ResourceCitation.corrected_citation, (c,), {})
        # the standardised page as the property words it: square-bracket markers become round ones for the
        # reporters that use them
        from eyecite.utils import REPORTERS_THAT_NEED_PAGE_CORRECTION as NEED

        std = {"[U]": "(U)", "[A]": "(A)"}.get(suf, suf) if canon in NEED else suf
        self.page2 = self.page[: len(self.page) - len(suf)] + [ord(ch) for ch in std]
        c2 = self.cite(self.vol, canon, self.page2, edition)
        text2 = self.interp.call(M.ResourceCitation.corrected_citation, (c2,), {})
        eq = self.interp.truth(self.interp.eq(c, c2))
        h1, h2 = self.interp.hash_of(c), self.interp.hash_of(c2)
        heq = bool(h1 == h2)
        return c, text, text2, bool(eq), heq

    def witness(self, m):
        f = lambda cs: "".join(chr(x if isinstance(x, int) else (mval(m, x) or 48)) for x in cs)
        return {"text": f"{f(self.vol)} {self.rep} {f(self.page)}", "normal_form_expected": f"{f(self.vol)} {self.canon} {f(self.page2)}"}

    def describe(self, kind, out):
        m = self.eng.path_model()
        return self.witness(m) if m is not None else {}

    def judge(self, kind, out):
        if kind == "exc":
            return [self.check("C16:norm:no_exception:" + type(out).__name__, False, self.witness)]
        c, text, text2, eq, heq = out
        CStr = self.symre.CStr
        want = CStr(list(self.vol) + [32] + [ord(ch) for ch in self.canon] + [32] + list(self.page2))
        same = lambda a, b: (a == b) if isinstance(a, str) and isinstance(b, str) else (CStr.lit(a) if isinstance(a, str) else a) == (CStr.lit(b) if isinstance(b, str) else b)
        r1, r2 = same(text, want), same(text2, want)
        lift = lambda r: r.e if isinstance(r, symex.SBool) else z3.BoolVal(bool(r))
        return [
            self.check("C16:normal_form_is_volume_canonical_reporter_standardised_page", lift(r1), self.witness),
            self.check("C16:normal_form_is_a_fixed_point_of_normalisation", lift(r2), self.witness),
            self.check("C16:normal_form_reparses_to_an_equal_citation", z3.BoolVal(eq and heq), self.witness),
        ]


def replay_norm(w):
    """the same three clauses on the real code through the public API: extract, normalise, extract again."""
    import logging

    from eyecite import get_citations

    logging.disable(logging.WARNING)
    try:
        # the model fixes the reporter spelling and the page marker; the database's own page patterns ask for
        # particular digit counts, so the digits are taken from the model first and then from realistic values
        vol, rest = w["text"].split(" ", 1)
        rep_, page = rest.rsplit(" ", 1)
        digits = "".join(ch for ch in page if ch.isdigit())
        suffix = page[len(digits):]
        exp_vol, exp_rest = w["normal_form_expected"].split(" ", 1)
        exp_rep, exp_page = exp_rest.rsplit(" ", 1)
        exp_suffix = exp_page[len("".join(ch for ch in exp_page if ch.isdigit())):]
        cands = [(vol, digits)] + [(v, d) for v in ("20", "2009") for d in ("1234", "50123")]
        for v, d in cands:
            text = f"{v} {rep_} {d}{suffix}"
            cs = get_citations(text)
            if len(cs) == 1 and cs[0].matched_text() == text:
                w = dict(w, text=text, normal_form_expected=f"{v} {exp_rep} {d}{exp_suffix}")
                break
        else:
            return None, f"no realisation of the shape {w['text']!r} is extracted as one whole citation"
        c = cs[0]
        t = c.corrected_citation()
        cs2 = get_citations(t)
        if len(cs2) != 1:
            return ["C16:normal_form_reparses_to_an_equal_citation"], f"normal form {t!r} parses into {len(cs2)} citations"
        c2 = cs2[0]
        bad = []
        if t != w["normal_form_expected"]:
            bad.append("C16:normal_form_is_volume_canonical_reporter_standardised_page")
        if c2.corrected_citation() != t:
            bad.append("C16:normal_form_is_a_fixed_point_of_normalisation")
        if not (c2 == c and hash(c2) == hash(c)):
            bad.append("C16:normal_form_reparses_to_an_equal_citation")
        return bad, f"{w['text']!r} -> normal form {t!r} -> re-parsed groups {c2.groups} vs original {c.groups}: equal={c2 == c}"
    finally:
        logging.disable(logging.NOTSET)


def make(params):
    if params.get("part") == "norm":
        return HNorm(params)
    return HPost(params) if params.get("part") == "post_init" else H(params)


def replay_post(w):
    import eyecite.models as M

    tok = M.CitationToken("1 X 1", 0, 5, groups={"volume": "1", "reporter": "X", "page": w["page"]})
    a, b = M.FullCaseCitation(tok, 0), M.FullCaseCitation(M.CitationToken("1 X 1", 0, 5, groups={"volume": "1", "reporter": "X", "page": w["page"]}), 0)
    is_ph = bool(w["page"]) and set(w["page"]) == {"_"}
    bad = []
    if (a.groups["page"] is None) != is_ph:
        bad.append("C16:placeholder_page_iff_all_underscores")
    if is_ph and (a == b or hash(a) == hash(b)):
        bad.append("C16:placeholder_citations_equal_only_to_themselves")
    return bad


# ---------------------------------------------------------------- replay
def build_concrete(w):
    import eyecite.models as M

    pool = [M.Edition(M.Reporter("Rep" + str(i), "name", "state", "reporters"), "R" + str(pid), None, None) for i, pid in enumerate(w["pool"])]
    out = []
    for i, d in enumerate(w["citations"]):
        kind = d["kind"]
        if kind in ("full_case", "short_case", "full_journal"):
            groups = {"volume": str(d["vol"]), "reporter": "R" + str(d["rep"]), "page": "___" if d["placeholder"] else str(d["page"])}
            for k, v in (d.get("xg") or {}).items():
                groups[k] = "G" + str(v)
            tok = M.CitationToken("x", 0, 1, groups=groups)
            cls = {"full_case": M.FullCaseCitation, "short_case": M.ShortCaseCitation, "full_journal": M.FullJournalCitation}[kind]
            kw = {}
            if d["cfg"] is not None:
                kw = {"exact_editions": [pool[j] for j in d["cfg"][0]], "variation_editions": [pool[j] for j in d["cfg"][1]]}
            c = cls(tok, i, **kw)
            if d["cfg"] is not None:
                c.guess_edition()
            # context: differs between otherwise equal citations
            c.metadata.pin_cite = f"at {i}"
            c.metadata.year = str(1990 + i)
            c.year = 1990 + i
            c.metadata.parenthetical = f"ctx{i}"
            if kind == "full_case":
                c.metadata.plaintiff, c.metadata.defendant = f"P{i}", f"D{i}"
            c.span_start, c.span_end = 10 * i, 10 * i + 5
        elif kind == "full_law":
            tok = M.CitationToken("x", 0, 1, groups={"reporter": "L" + str(d["rep"]), "section": str(d["vol"])})
            c = M.FullLawCitation(tok, i)
            c.metadata.pin_cite = f"({i})"
            c.metadata.year = str(1990 + i)
        elif kind == "id":
            c = M.IdCitation(M.IdToken("id.", 0, 3), i)
        else:
            c = M.UnknownCitation(M.SectionToken("§", 0, 1), i)
        out.append(c)
    return out


def concrete_history(w):
    """replay of a history model: observe, correct citation 0 through its public attributes, observe again."""
    import eyecite.models as M

    if not w.get("mutation"):
        return []
    w0 = dict(w, citations=[dict(w["citations"][0])] + w["citations"][1:])
    if w["mutation"] == "page":
        w0["citations"][0]["page"] = w["orig_page"]
    cs = build_concrete(w0)
    for a in cs:
        for b in cs:
            a == b, hash(a), M.Resource(a) == M.Resource(b)
    if w["mutation"] == "page":
        cs[0].groups["page"] = str(w["citations"][0]["page"])
    else:
        cs[0].edition_guess = M.Edition(M.Reporter("RepX", "name", "state", "reporters"), "R" + str(w["new_edition"]), None, None)
    bad = []
    for i, a in enumerate(cs):
        for j, b in enumerate(cs):
            da, db = w["citations"][i], w["citations"][j]
            if da["kind"] not in ("full_case", "short_case") or db["kind"] != da["kind"]:
                continue

            def crep(c_, d_, k):
                if k == 0 and w["mutation"] == "edition_guess":
                    return "R" + str(w["new_edition"])
                cands = c_.exact_editions or c_.variation_editions
                return cands[0].short_name if len(cands) == 1 else c_.groups["reporter"]

            want = i == j or (not da["placeholder"] and not db["placeholder"] and (da["vol"], da["page"]) == (db["vol"], db["page"]) and crep(a, da, i) == crep(b, db, j))
            if (a == b) != want or (hash(a) == hash(b)) != want or (M.Resource(a) == M.Resource(b)) != want:
                bad.append("C16:equality_follows_corrected_attributes")
    return sorted(set(bad))


def concrete_oracle(cs, w):
    import eyecite.models as M

    bad = []
    N = len(cs)
    try:
        eqm = {(i, j): cs[i] == cs[j] for i in range(N) for j in range(N)}
        heq = {(i, j): hash(cs[i]) == hash(cs[j]) for i in range(N) for j in range(N)}
        req = {(i, j): M.Resource(cs[i]) == M.Resource(cs[j]) for i in range(N) for j in range(N)}
    except Exception as ex:
        return ["C16:no_exception:" + type(ex).__name__]
    if not (all(eqm[(i, i)] for i in range(N)) and all(eqm[(i, j)] == eqm[(j, i)] for i in range(N) for j in range(N)) and all((not (eqm[(i, j)] and eqm[(j, k)])) or eqm[(i, k)] for i in range(N) for j in range(N) for k in range(N))):
        bad.append("C16:equivalence_relation")
    if not all(eqm[k] == heq[k] == req[k] for k in eqm):
        bad.append("C16:eq_hash_resource_agree")

    def crep(c, d):
        cands = c.exact_editions or c.variation_editions
        return cands[0].short_name if len(cands) == 1 else c.groups["reporter"]

    for i in range(N):
        for j in range(N):
            a, b = w["citations"][i], w["citations"][j]
            if i == j:
                want = True
            elif a["kind"] != b["kind"] or a["kind"] in ("id", "unknown"):
                want = False
            elif a["kind"] in ("full_case", "short_case"):
                want = not a["placeholder"] and not b["placeholder"] and (a["vol"], a["page"]) == (b["vol"], b["page"]) and crep(cs[i], a) == crep(cs[j], b)
            elif a["kind"] == "full_journal" and (a["placeholder"] or b["placeholder"]):
                want = False
            else:
                continue
            if eqm[(i, j)] != want:
                bad.append("C16:equal_iff_same_volume_page_normalised_reporter")
    return sorted(set(bad))


def db_normalisation(rep):
    """reporters-db clause: every variation that maps to exactly one edition yields, through the real
    extractor + guess_edition, a citation equal to the one written with the canonical spelling."""
    import eyecite.models as M
    from eyecite import get_citations
    from eyecite.tokenizers import EDITIONS_LOOKUP
    from reporters_db import REPORTERS

    n = bad = 0
    for key, cluster in REPORTERS.items():
        for source in cluster:
            for var, ed in source["variations"].items():
                if len(EDITIONS_LOOKUP.get(var, [])) != 1 or len(EDITIONS_LOOKUP.get(ed, [])) != 1:
                    continue
                if (source["editions"].get(ed, {}).get("regexes")) not in (None, [], ["$full_cite"]):
                    continue
                a = [c for c in get_citations(f"Foo v. Bar, 12 {var} 345, 350 (1999) (per curiam).") if isinstance(c, M.FullCaseCitation)]
                b = [c for c in get_citations(f"See 12 {ed} 345.") if isinstance(c, M.FullCaseCitation)]
                if len(a) != 1 or len(b) != 1:
                    continue
                n += 1
                if not (a[0] == b[0] and hash(a[0]) == hash(b[0]) and M.Resource(a[0]) == M.Resource(b[0])):
                    bad += 1
                    if bad <= 3:
                        rep.violation(f"variation {var!r} of edition {ed!r}: '12 {var} 345' != '12 {ed} 345'", {"kind": "db", "variation": var, "edition": ed})
    rep.sections["db_normalisation_sweep"] = {"unambiguous_variations_compared": n, "unequal": bad, "note": "concrete sweep over reporters-db (exhaustive over the data, not a solver result); the symbolic part proves that equality depends only on volume, page and the unique candidate edition"}


def check(rep):
    quick = rep.tier == "quick"
    N = 2 if quick else 3
    rep.bounds.append(f"{N} citations at a time (pairs: equality/hash/resource agreement and the spec; triples in the thorough tier add transitivity); kinds {KINDS}; candidate editions from a pool of 2 with 7 exact/variation configurations; volume, page, reporter symbolic")
    rep.outside += ["that the extractor captures the three components of a normal-form text (the regex engines: C01's recognisability clauses); normal forms of shapes other than volume-reporter-page; years (guess_edition with a year is decided in C18)", "supra and reference citations (the property does not state their equality)"]
    rep.stubs += ["hash_sha256: injective (collision-free); id() values differ from digests and from each other", "context fields (metadata, year, spans, index) are poisoned: any read raises", "case citations optionally carry the other regex groups of the database's case extractors (year, reporter_nominative, volume_nominative) with arbitrary values"]
    # every case citation carries the extra regex groups (arbitrary values); thorough adds pairs with and without them
    agg = common.explore_split("vf.harness.c16", {"N": N, "xg_choice": False}, depth=3 if quick else 4)
    rep.merge_explore("equality", agg)
    if not quick:
        # pairs in which each case citation may or may not carry the extra groups (presence must not matter either)
        aggx = common.explore_split("vf.harness.c16", {"N": 2, "xg_choice": True}, depth=3)
        rep.merge_explore("equality_pairs_with_optional_extra_groups", aggx)
        for k, v in aggx["verdicts"].items():
            agg["verdicts"][k] = agg["verdicts"].get(k, 0) + v
        agg["findings"] = agg["findings"] + aggx["findings"]
        agg["paths"] += aggx["paths"]
    n_ob = sum(agg["verdicts"].values())
    n_ok = sum(v for k, v in agg["verdicts"].items() if k.endswith(":valid"))
    rep.oblige(n_ok)
    rep.oblige(n_ob - n_ok, ok=False)
    rep.distinct = agg["paths"]
    seen = set()
    for f in agg["findings"]:
        if f["verdict"] != "cex":
            rep.inconc(f"{f['clause']}: solver verdict {f['verdict']}")
            continue
        w = f["witness"]
        rep.replays += 1
        if f["clause"] == "C16:equality_follows_corrected_attributes":
            bad = concrete_history(w)
            if bad:
                if ("hist", w["mutation"]) not in seen:
                    seen.add(("hist", w["mutation"]))
                    rep.violation(f"citations {w['citations']}: after comparing them, citation 0's {w['mutation']} was corrected; ==/hash/Resource do not follow the new value", {"kind": "history", "witness": w})
            else:
                rep.spurious += 1
                rep.inconc(f"history model did not reproduce: {w}")
            continue
        cs = build_concrete(w)
        bad = concrete_oracle(cs, w)
        if f["clause"] == "C16:context_not_read" and not bad:
            # context dependence: flip the context and compare again is already part of build_concrete
            # (every object gets different context), so an equal pair by spec that compares unequal shows up above
            rep.spurious += 1
            rep.inconc(f"equality code reads a context field but no concrete difference was observed: {w}")
            continue
        if bad:
            key = (tuple(bad), tuple(d["kind"] for d in w["citations"]))
            if key in seen:
                continue
            seen.add(key)
            rep.violation(f"citations {w['citations']} (edition pool {w['pool']}): {bad}", {"kind": "model", "witness": w})
        else:
            rep.spurious += 1
            rep.inconc(f"{f['clause']}: model did not reproduce: {w}")
    # normal form: text, fixed point, re-parse
    aggn = common.explore_split("vf.harness.c16", {"part": "norm"}, depth=4)
    rep.merge_explore("normal_form", aggn)
    rep.bounds.append(f"normal-form clause: citations  V R P  with V, P of 1..2 arbitrary digits, P optionally followed by one of {NORM_SUFFIXES[1:]}, R one of {[r for r, _ in NORM_REPORTERS]}")
    n_ob = sum(aggn["verdicts"].values())
    n_ok = sum(v for k, v in aggn["verdicts"].items() if k.endswith(":valid"))
    rep.oblige(n_ok)
    rep.oblige(n_ob - n_ok, ok=False)
    for f in aggn["findings"]:
        if f["verdict"] != "cex":
            rep.inconc(f"normal form/{f['clause']}: solver verdict {f['verdict']}")
            continue
        rep.replays += 1
        bad, detail = replay_norm(f["witness"])
        if bad is None:
            rep.inconc(f"normal-form model not realisable through the extractor: {detail}")
        elif bad:
            key = ("norm", tuple(bad), f["witness"]["text"].split(" ", 1)[1].rsplit(" ", 1)[0], "".join(ch for ch in f["witness"]["text"].rsplit(" ", 1)[1] if not ch.isdigit()))
            if key not in seen:
                seen.add(key)
                if len([k for k in seen if k[0] == "norm"]) <= 4:
                    rep.violation(f"normal form: {detail}: {bad}", {"kind": "norm", "witness": f["witness"]})
        else:
            rep.spurious += 1
            rep.inconc(f"normal-form model did not reproduce: {f['witness']} ({detail})")
    # placeholder pages through the real __post_init__
    aggp = common.explore_split("vf.harness.c16", {"part": "post_init", "N": 4 if quick else 6}, depth=3)
    rep.merge_explore("placeholder_pages", aggp)
    rep.bounds.append(f"placeholder clause: page texts of <= {4 if quick else 6} symbolic code points other than a line break")
    n_ob = sum(aggp["verdicts"].values())
    n_ok = sum(v for k, v in aggp["verdicts"].items() if k.endswith(":valid"))
    rep.oblige(n_ok)
    rep.oblige(n_ob - n_ok, ok=False)
    for f in aggp["findings"]:
        if f["verdict"] != "cex":
            rep.inconc(f"placeholder/{f['clause']}: solver verdict {f['verdict']}")
            continue
        rep.replays += 1
        bad = replay_post(f["witness"])
        if bad:
            if ("post", tuple(bad)) not in seen:
                seen.add(("post", tuple(bad)))
                rep.violation(f"citation with page text {f['witness']['page']!r}: {bad}", {"kind": "post", "witness": f["witness"]})
        else:
            rep.spurious += 1
            rep.inconc(f"placeholder model did not reproduce: {f['witness']}")
    # candidate editions survive token merging (the normalised reporter is computed from them)
    aggm = common.explore_split("vf.harness.c15", {"part": "merge"}, depth=4)
    rep.merge_explore("token_merge", aggm)
    clm = "C16:merged_candidate_editions_are_the_union_of_both_tokens"
    n_ok = aggm["verdicts"].get(clm + ":valid", 0)
    n_ob = sum(v for k, v in aggm["verdicts"].items() if k.startswith(clm))
    rep.oblige(n_ok)
    rep.oblige(n_ob - n_ok, ok=False)
    for f in aggm["findings"]:
        if f["clause"] != clm:
            continue
        rep.replays += 1
        import eyecite.models as M2
        import eyecite.tokenizers as T2

        w = f["witness"]
        lost = replay_merge(w)
        if lost:
            rep.violation(f"CitationToken.merge loses candidate editions: merging exact {w.get('a_exact')} / variation {w.get('a_var')} with exact {w.get('b_exact')} / variation {w.get('b_var')} leaves {lost}", {"kind": "merge", "witness": w})
            break
        rep.spurious += 1
        rep.inconc(f"merge model did not reproduce: {w}")
    db_normalisation(rep)
    return rep.finish(
        explanation=f"Path-exhaustive symbolic execution of the real __hash__/__eq__/corrected_reporter/guess_edition/Resource source on {N} citation objects with symbolic identity attributes and poisoned context; per path: equivalence laws, ==/hash/Resource agreement, and 'equal iff same class, volume, page and normalised reporter, no placeholder' as z3 validity queries.",
        technique="symbolic execution of the Python source (AST interpreter) + z3 validity queries per path; pairs/triples of citations",
    )


def replay_merge(w):
    """rebuild the model's two tokens from the real database's editions and merge them; returns a description
    of what is left when editions were lost, else None."""
    import eyecite.models as M2
    import eyecite.tokenizers as T2

    nom = [e for v in T2.EDITIONS_LOOKUP.values() for e in v if e.reporter.short_name in T2.NOMINATIVE_REPORTER_NAMES][0]
    us, other = T2.EDITIONS_LOOKUP["U.S."][0], T2.EDITIONS_LOOKUP["F.2d"][0]
    twin = M2.Edition(M2.Reporter("Other Rep.", "Other reporter", "state", "reporters"), us.short_name, None, None)
    byname = {"nominative": nom, "U.S.": us, "F.2d": other, "twin-of-U.S.(same short_name, other reporter)": twin}
    tup = lambda k: tuple(byname[n] for n in w.get(k, []))
    a = M2.CitationToken("1 X 1", 0, 5, groups={"volume": "1", "reporter": "X", "page": "1"}, exact_editions=tup("a_exact"), variation_editions=tup("a_var"))
    b = M2.CitationToken("1 X 1", 0, 5, groups={"volume": "1", "reporter": "X", "page": "1"}, exact_editions=tup("b_exact"), variation_editions=tup("b_var"))
    a.merge(b)
    if set(a.exact_editions) != set(tup("a_exact")) | set(tup("b_exact")) or set(a.variation_editions) != set(tup("a_var")) | set(tup("b_var")):
        return f"exact {[e.short_name for e in a.exact_editions]}, variation {[e.short_name for e in a.variation_editions]}"
    return None


def replay_file(path):
    import json

    r = json.load(open(path))["replay"]
    if r["kind"] == "norm":
        bad, detail = replay_norm(r["witness"])
        print(bad, detail)
        return 1 if bad else 0
    if r["kind"] == "history":
        bad = concrete_history(r["witness"])
        print(bad)
        return 1 if bad else 0
    if r["kind"] == "merge":
        lost = replay_merge(r["witness"])
        print(lost)
        return 1 if lost else 0
    if r["kind"] == "post":
        bad = replay_post(r["witness"])
        print(bad)
        return 1 if bad else 0
    if r["kind"] == "model":
        bad = concrete_oracle(build_concrete(r["witness"]), r["witness"])
        print(bad)
        return 1 if bad else 0
    from eyecite import get_citations

    a = get_citations(f"Foo v. Bar, 12 {r['variation']} 345, 350 (1999)")[0]
    b = get_citations(f"See 12 {r['edition']} 345.")[0]
    print(a, b, a == b)
    return 0 if a == b else 1
