"""C19 — markup mode only adds well-founded reference citations (partial).

Decided on the real source:
  (a) get_citations' tail (dispatch, reference collection, parallel detection, filter) run with and without
      reference citations on the same prepared citations: the non-reference citations, their order and the
      parallel-citation comparisons are identical (vf.harness.c03.HTail);
  (b) extract_pincited_reference_citations: every reference starts at or after the end of its citation's
      span, 0 <= full start <= start <= end <= full end <= len(text), and its token text is the slice at its
      span (vf.harness.c02.HRef).
  (c) find_reference_citations_from_markup (vf.harness.c19m): with both offset translators built by the real
      SpanUpdater from a symbolic diff script and its inverse, every markup-derived reference has valid
      offsets in the plain text and does not start before its citation.
NOT decided: clean_text(..., ['html']) (lxml), hence "exactly the citations of the cleaned plain text" as a
whole-pipeline statement.
"""
import logging

from vf import common


def check(rep):
    from vf.harness import c02, c03

    quick = rep.tier == "quick"
    M = 3 if quick else 4
    rep.bounds.append(f"(a) <= {M} prepared citations with symbolic spans, references attached to the latest full case citation; (b) one full case citation at symbolic offsets in a text of symbolic length, <= 2 regex matches after it")
    rep.outside += ["the html cleaning step (lxml) and therefore the whole-pipeline equality with get_citations(clean_text(markup))", "find_reference_citations_from_markup beyond the SpanUpdater laws of C10", "the name-validity rule is_valid_name (taken as given)"]
    rep.stubs += ["per-token extractors return prepared citations; extract_reference_citations returns the prepared references or none", "compiled reference pattern .finditer: <= 2 ordered matches inside the searched text"]
    agg = common.explore_split("vf.harness.c03", {"M": M, "tail": True}, depth=4)
    rep.merge_explore("get_citations_tail", agg)
    cl = "C19:references_leave_the_other_citations_unchanged"
    n_ob = sum(v for k, v in agg["verdicts"].items() if k.startswith(cl))
    n_ok = agg["verdicts"].get(cl + ":valid", 0)
    rep.oblige(n_ok)
    rep.oblige(n_ob - n_ok, ok=False)
    cex = [f for f in agg["findings"] if f["clause"] == cl]
    agg2 = common.explore_split("vf.harness.c02", {"part": "ref", "W": 2}, depth=3)
    rep.merge_explore("pincited_references", agg2)
    cl2 = "C19:ref:reference_lies_after_its_citation_with_valid_offsets"
    n_ob = sum(v for k, v in agg2["verdicts"].items() if k.startswith("C19") or k.startswith("C04"))
    n_ok = agg2["verdicts"].get(cl2 + ":valid", 0)
    rep.oblige(n_ok)
    rep.oblige(n_ob - n_ok, ok=False)
    cex2 = [f for f in agg2["findings"] if f["clause"].startswith("C19") or f["clause"].startswith("C04")]
    agg3 = common.explore_split("vf.harness.c19m", {"K": 3 if quick else 4}, depth=4)
    rep.merge_explore("markup_references", agg3)
    n_ob = sum(agg3["verdicts"].values())
    n_ok = sum(v for k, v in agg3["verdicts"].items() if k.endswith(":valid"))
    rep.oblige(n_ok)
    rep.oblige(n_ob - n_ok, ok=False)
    cex2 = cex2 + list(agg3["findings"])
    rep.bounds.append(f"(c) find_reference_citations_from_markup with both SpanUpdaters built from a symbolic script of <= {3 if quick else 4} blocks and its inverse, <= 2 tag matches after the citation")
    rep.assumptions.append("(c) the citation's span start lies in a block that is equal in plain text and markup")
    rep.distinct = rep.evaluations
    from vf.harness import c19m

    c19m.pattern_clause(rep)
    c19m.pincite_pattern_clause(rep)
    rep.bounds.append("(d) the markup search pattern and the name-pincite pattern built for one citation with a one-word plaintiff and a two-word defendant: regular-language inclusion over the whole alphabet (unbounded length)")
    for f in cex + cex2:
        if f["verdict"] != "cex":
            rep.inconc(f"{f['clause']}: solver verdict {f['verdict']}")
    # replay: markup vs plain on concrete documents (model-guided: parallel citations + emphasised names)
    logging.disable(logging.WARNING)
    if any(f["verdict"] == "cex" for f in cex + cex2):
        rep.replays += 1
        hit = None
        for doc in documents():
            bad = oracle_markup(doc)
            if bad:
                hit = (doc, bad)
                break
        if hit:
            rep.violation(f"get_citations(markup_text={hit[0]!r}, clean_steps=['html','all_whitespace']): {hit[1]}", {"kind": "markup", "markup": hit[0]})
        else:
            rep.spurious += 1
            rep.inconc(f"symbolic counter-model but no document of the replay corpus reproduces it: {(cex + cex2)[0].get('witness')}")
    for doc in documents()[:12]:
        rep.replays += 1
        bad = oracle_markup(doc)
        if bad:
            rep.violation(f"get_citations(markup_text={doc!r}, clean_steps=['html','all_whitespace']): {bad}", {"kind": "markup", "markup": doc})
            break
    logging.disable(logging.NOTSET)
    return rep.finish(
        explanation="Symbolic execution of get_citations' own tail with and without reference citations on the same prepared citations (self-composition), and of extract_pincited_reference_citations on symbolic offsets; per path the C19 clauses are z3 validity queries / structural comparisons; counter-models are confirmed on concrete markup documents.",
        technique="symbolic execution of the Python source (AST interpreter) + z3 validity queries per path; self-composition of two runs",
    )


def documents():
    wrap = ["", "<div class=\"opinion\"><p id=\"b12-4\">", "<div><section data-x=\"1234567890\"><p>"]
    core = ["The rule in <em>Foo</em> is settled. <em>See</em> <em>Foo</em> v. <em>Bar</em>, 1 U.S. 1 (1999). Under <em>Foo</em>, all is well.", "<i>Foo</i> said so. <i>Foo</i> v. <i>Bar</i>, 1 U.S. 1, 2 S. Ct. 3 (1999). Later <i>Bar</i> agreed."]
    extra = [w + c_ for w in wrap for c_ in core]
    return extra + _documents()


def _documents():
    pre = ["<p>See <i>Miranda</i> v. <i>Arizona</i>, 384 U.S. 436, 86 S. Ct. 1602 (1966).</p>", "<p><em>Foo</em> v. <em>Bar</em>, 1 U.S. 1 (1999).</p>", "<div class=\"opinion\"><p id=\"b1\">The rule in <em>Foo</em> is settled. <em>See</em> <em>Foo</em> v. <em>Bar</em>, 1 U.S. 1, 2 S. Ct. 3 (1999).</p>"]
    post = ["<p>Under <i>Miranda</i>, warnings are required.</p>", "<p>In <em>Foo</em>, the court held. <i>Id.</i> at 5; Bar at 7.</p>", "<p>Under <em>Bar,</em> nothing. See <i>Arizona</i>.</p></div>", ""]
    return [a + b for a in pre for b in post]


def oracle_markup(doc):
    import eyecite.models as M
    from eyecite import clean_text, get_citations

    steps = ["html", "all_whitespace"]
    try:
        mk = get_citations(markup_text=doc, clean_steps=steps)
        plain = clean_text(doc, steps)
        pl = get_citations(plain)
    except Exception as ex:
        return [f"raised {type(ex).__name__}: {ex}"]

    def sig(c):
        return (type(c).__name__, c.span(), c.full_span(), tuple(sorted((k, v) for k, v in c.groups.items() if v)), tuple(sorted((k, v) for k, v in vars(c.metadata).items() if isinstance(v, str))))

    a = [sig(c) for c in mk if not isinstance(c, M.ReferenceCitation)]
    b = [sig(c) for c in pl if not isinstance(c, M.ReferenceCitation)]
    bad = []
    if a != b:
        bad.append("C19:non-reference citations differ between markup mode and the cleaned plain text")
    fulls = [c for c in mk if isinstance(c, M.FullCaseCitation)]
    for r in mk:
        if isinstance(r, M.ReferenceCitation):
            s0, s1 = r.span()
            if not (0 <= s0 <= s1 <= len(plain)) or not any(f.span()[1] <= s0 for f in fulls):
                bad.append(f"C19:reference {r.span()} does not lie after a full case citation / has invalid offsets")
            else:
                import re

                from eyecite.utils import is_valid_name

                names = [v for f in fulls if f.span()[1] <= s0 for k in M.ReferenceCitation.name_fields if (v := getattr(f.metadata, k, None)) and is_valid_name(v)]
                if not any(re.search(r"\s+".join(map(re.escape, v.split())), plain[s0:s1]) for v in names if v.split()):
                    bad.append(f"C19:reference {r.span()} {plain[s0:s1]!r} contains no party or resolved name of an earlier full case citation that passes the name-validity rule")
    return bad


def replay_file(path):
    import json

    r = json.load(open(path))["replay"]
    if r.get("kind") == "text":
        import re

        import eyecite.models as M
        from eyecite import get_citations

        bad = [r["text"][c.span()[0] : c.span()[1]] for c in get_citations(r["text"]) if isinstance(c, M.ReferenceCitation) and not re.search(r.get("spec") or r"Foo Bar|Baz", r["text"][c.span()[0] : c.span()[1]])]
        print(bad)
        return 1 if bad else 0
    bad = oracle_markup(r["markup"])
    if r.get("spec"):
        import re

        import eyecite.models as M
        from eyecite import clean_text, get_citations

        plain = clean_text(r["markup"], ["html", "all_whitespace"])
        bad += [plain[c.span()[0] : c.span()[1]] for c in get_citations(markup_text=r["markup"], clean_steps=["html", "all_whitespace"]) if isinstance(c, M.ReferenceCitation) and not re.search(r["spec"], plain[c.span()[0] : c.span()[1]])]
    print(bad)
    return 1 if bad else 0
