"""C05 — unambiguous references are grouped with the case they refer to (partial: the resolution half).

The resolver harness of C06 under a *scenario* precondition: the list consists of full case citations to
pairwise distinct cases with pairwise non-overlapping party names, and short / supra / id. references each
carrying a ghost "intended antecedent" chosen among the earlier cases and written accordingly (same
reporter and volume; an antecedent word contained in a party name of the intended case and of no other).
Asserted on every path: one resource per case; every reference that is unambiguous by the property's own
criteria sits in its intended case's list; an id. with an impossible pin cite, or following an unresolved
citation, is in no list.
NOT decided: that extraction produces those citation objects from running text (C01's unreachable half).
"""
import z3

from vf import common, symex
from vf.absval import Sub
from vf.harness import c06
from vf.symex import mval

KINDS = ["full_case", "short", "supra", "id"]


class H(c06.H):
    def __init__(self, params):
        params = dict(params)
        params["kinds"] = params.get("kinds5") or KINDS
        params["prefixes"] = False
        params["edition_guess"] = False
        params["comma_pages"] = False  # the scenario's cases have plain numeric first pages
        super().__init__(params)

    def run(self):
        out = super().run()
        eng, sps = self.eng, self.sps
        allfulls = [i for i, sp in enumerate(sps) if sp.kind == "full_case"]
        # every full citation either opens a new case or cites an earlier case in full again
        self.case_of = {}
        for i in allfulls:
            firsts = [j for j in allfulls if j < i and self.case_of[j] == j]
            k = eng.choose([z3.Int(f"repeat_of{i}") == x for x in range(len(firsts) + 1)])
            if k == 0:
                self.case_of[i] = i
            else:
                j = firsts[k - 1]
                self.case_of[i] = j
                A, B = sps[j], sps[i]
                eng.add(A.vol == B.vol, A.rep == B.rep, A.page == B.page, A.pl == B.pl, A.df == B.df)
        fulls = [i for i in allfulls if self.case_of[i] == i]
        # distinct cases, non-overlapping names
        for a in fulls:
            for b in fulls:
                if a < b:
                    A, B = sps[a], sps[b]
                    eng.add(z3.Or(A.vol != B.vol, A.rep != B.rep, A.page != B.page))
                    for x in (A.pl, A.df):
                        for y in (B.pl, B.df):
                            eng.add(x != y, z3.Not(Sub(x, y)), z3.Not(Sub(y, x)))
        self.intended = {}
        for i, sp in enumerate(sps):
            earlier = [j for j in fulls if j < i]
            if sp.kind in ("short", "supra"):
                if not earlier:
                    raise symex.Infeasible()
                j = earlier[eng.choose([z3.Int(f"intended{i}") == k for k in range(len(earlier))])]
                self.intended[i] = j
                J = sps[j]
                if sp.kind == "short":
                    eng.add(sp.rep == J.rep, sp.vol == J.vol)
                if sp.ag is not None:
                    eng.add(z3.Or(sp.ag == J.pl, sp.ag == J.df, Sub(sp.ag, J.pl), Sub(sp.ag, J.df)))
                    for k in fulls:
                        if k != j:
                            for nm in (sps[k].pl, sps[k].df):
                                eng.add(sp.ag != nm, z3.Not(Sub(sp.ag, nm)))
        if eng.path_model() is None:
            raise symex.Infeasible()
        return out

    def judge(self, kind, out):
        if kind == "exc":
            return [self.check("C05:no_exception:" + type(out).__name__, False, self.witness)]
        res, pre = out
        cs, sps = self.cs, self.sps
        items = list(res.items())
        pos = {id(c): i for i, c in enumerate(cs)}
        where = {}
        for gi, (key, vals) in enumerate(items):
            for v in vals:
                where[pos[id(v)]] = gi
        allfulls = [i for i, sp in enumerate(sps) if sp.kind == "full_case"]
        fulls = [i for i in allfulls if self.case_of[i] == i]
        one_per_case = len(items) == len(fulls) and len({where.get(i) for i in fulls}) == len(fulls) and None not in {where.get(i) for i in allfulls} and all(where.get(i) == where.get(self.case_of[i]) for i in allfulls)
        conds = []
        for i, sp in enumerate(sps):
            if sp.kind == "short":
                j = self.intended[i]
                others = [k for k in fulls if k < i and k != j]
                unique_rv = z3.And(*[z3.Or(sps[k].rep != sp.rep, sps[k].vol != sp.vol) for k in others]) if others else z3.BoolVal(True)
                unamb = z3.BoolVal(True) if sp.ag is not None else unique_rv
                conds.append(z3.Implies(unamb, z3.BoolVal(where.get(i) is not None and where.get(i) == where.get(j))))
            elif sp.kind == "supra":
                if sp.ag is None:
                    conds.append(z3.BoolVal(where.get(i) is None))
                else:
                    j = self.intended[i]
                    conds.append(z3.BoolVal(where.get(i) is not None and where.get(i) == where.get(j)))
            elif sp.kind == "id":
                prev = where.get(i - 1) if i > 0 else None
                if prev is None:
                    conds.append(z3.BoolVal(where.get(i) is None))
                else:
                    f = sps[pos[id(items[prev][1][0])]]
                    if sp.pin is None:
                        conds.append(z3.BoolVal(where.get(i) == prev))
                    elif sp.pin[0] == "nonnum":
                        conds.append(z3.BoolVal(where.get(i) is None))
                    else:
                        q = sp.pin[1]
                        inwin = z3.And(q >= f.page, q <= f.page + c06.MAXP)
                        conds.append(inwin if where.get(i) == prev else (z3.Not(inwin) if where.get(i) is None else z3.BoolVal(False)))
        return [
            self.check("C05:one_resource_per_distinct_case", z3.BoolVal(one_per_case), self.witness),
            self.check("C05:unambiguous_reference_grouped_with_intended_case_impossible_id_left_out", z3.And(*conds) if conds else z3.BoolVal(True), self.witness),
        ]

    def witness(self, m):
        w = super().witness(m)
        w["intended"] = dict(self.intended)
        w["case_of"] = dict(self.case_of)
        return w


def make(params):
    return H(params)


def concrete_oracle(cs, w):
    import eyecite.models as M
    from eyecite import resolve_citations

    try:
        res = resolve_citations(cs)
    except Exception as ex:
        return ["C05:no_exception:" + type(ex).__name__], None
    pos = {id(c): i for i, c in enumerate(cs)}
    groups = [[pos[id(v)] for v in vals] for vals in res.values()]
    where = {i: gi for gi, g in enumerate(groups) for i in g}
    kinds = [d["kind"] for d in w["citations"]]
    allfulls = [i for i, k in enumerate(kinds) if k == "full_case"]
    case_of = {int(k): v for k, v in w.get("case_of", {i: i for i in allfulls}).items()}
    fulls = [i for i in allfulls if case_of[i] == i]
    bad = []
    if len(groups) != len(fulls) or len({where.get(i) for i in fulls}) != len(fulls) or any(where.get(i) is None or where.get(i) != where.get(case_of[i]) for i in allfulls):
        bad.append("C05:one_resource_per_distinct_case")
    intended = {int(k): v for k, v in w["intended"].items()}
    for i, d in enumerate(w["citations"]):
        ok = True
        if d["kind"] == "short":
            j = intended[i]
            others = [k for k in fulls if k < i and k != j]
            unique_rv = all((w["citations"][k]["rep"], w["citations"][k]["vol"]) != (d["rep"], d["vol"]) for k in others)
            if ("ag" in d or unique_rv) and where.get(i) != where.get(j):
                ok = False
        elif d["kind"] == "supra":
            ok = (where.get(i) is None) if "ag" not in d else (where.get(i) is not None and where.get(i) == where.get(intended[i]))
        elif d["kind"] == "id":
            prev = where.get(i - 1) if i > 0 else None
            if prev is None:
                ok = where.get(i) is None
            else:
                p = int(cs[groups[prev][0]].groups["page"])
                if "pin" not in d:
                    ok = where.get(i) == prev
                elif d["pin"][0] == "nonnum":
                    ok = where.get(i) is None
                else:
                    inwin = p <= d["pin"][1] <= p + c06.MAXP
                    ok = (where.get(i) == prev) if inwin else (where.get(i) is None)
        if not ok:
            bad.append("C05:unambiguous_reference_grouped_with_intended_case_impossible_id_left_out")
    return sorted(set(bad)), groups


def check(rep):
    quick = rep.tier == "quick"
    L = 4 if quick else 5
    rep.bounds.append(f"scenario lists of 4 citations over {KINDS}" + ("" if quick else " and of 5 citations over ['full_case', 'short', 'id']") + ": cases with pairwise non-overlapping party names, each cited in full once or repeatedly; short/supra references written to an intended earlier case; id. with no / numeric / non-numeric pin cite; pages and pin cites unbounded integers")
    rep.outside += ["that get_citations produces these citation objects from running text (extraction half of C05; see C01/C02/C17)", f"more than {L} citations; party names with punctuation (strip_punct identity)"]
    rep.stubs += ["hash_sha256 injective", "strip_punct identity", "re.match on the pin cite by contract"]
    agg = common.explore_split("vf.harness.c05", {"L": 4}, depth=3 if quick else 4, timeout=6 * 3600)
    rep.merge_explore("scenario_resolution", agg)
    if not quick:
        # all four kinds at length 5 took 99 minutes (measured); the thorough tier adds length 5 without supra
        agg5 = common.explore_split("vf.harness.c05", {"L": 5, "kinds5": ["full_case", "short", "id"]}, depth=4, timeout=6 * 3600)
        rep.merge_explore("scenario_resolution_5", agg5)
        for k, v in agg5["verdicts"].items():
            agg["verdicts"][k] = agg["verdicts"].get(k, 0) + v
        agg["findings"] = agg["findings"] + agg5["findings"]
        agg["paths"] += agg5["paths"]
        agg["errors"] = agg["errors"] + agg5["errors"]
    n_ob = sum(agg["verdicts"].values())
    n_ok = sum(v for k, v in agg["verdicts"].items() if k.endswith(":valid"))
    rep.oblige(n_ok)
    rep.oblige(n_ob - n_ok, ok=False)
    rep.distinct = agg["paths"]
    if agg["paths"] == 0 and not agg["errors"]:
        rep.inconc("no feasible scenario path")
    seen = set()
    for f in agg["findings"]:
        if f["verdict"] != "cex":
            rep.inconc(f"{f['clause']}: solver verdict {f['verdict']}")
            continue
        w = f["witness"]
        rep.replays += 1
        try:
            cs = c06.build_concrete(w)
            bad, groups = concrete_oracle(cs, w)
        except Exception as ex:
            rep.inconc(f"replay construction failed for {w}: {ex!r}")
            continue
        if bad:
            key = (tuple(bad), tuple(d["kind"] for d in w["citations"]))
            if key not in seen:
                seen.add(key)
                rep.violation(f"scenario {w['citations']} (intended antecedents {w['intended']}, substring facts {w['substring']}) -> groups {groups}: {bad}", {"kind": "model", "witness": w})
        else:
            rep.spurious += 1
            rep.inconc(f"{f['clause']}: model did not reproduce on the real code: {w}")
    # "a pin cite within the opinion" is a statement about pin-cite text: the lemma behind the numeric abstraction
    from vf.harness import pinlemma

    pinlemma.fold(rep, "C05")
    # one end-to-end document (extraction + resolution) as regression
    from eyecite import get_citations, resolve_citations

    t = "Foo v. Bar, 1 U.S. 100 (1999). Id. at 105. Smith v. Jones, 2 F.2d 200 (2d Cir. 2000). Bar, supra, at 101. Jones, 2 F.2d at 203. Id. at 204. Id. at 999."
    rep.replays += 1
    cs = get_citations(t)
    groups = [[cs.index(v) for v in vals] for vals in resolve_citations(cs).values()]
    if groups != [[0, 1, 3], [2, 4, 5]]:
        rep.violation(f"resolve_citations(get_citations({t!r})) grouped {groups}, expected [[0, 1, 3], [2, 4, 5]]", {"kind": "text", "text": t})
    return rep.finish(
        explanation=f"Path-exhaustive symbolic execution of the real resolver on scenario lists of {L} citations (distinct cases, references written to a ghost intended antecedent): one resource per case, every reference that is unambiguous by the property's criteria is grouped with its intended case, impossible or orphaned id. citations are left out - z3 validity queries per path, counter-models replayed as real citation objects.",
        technique="symbolic execution of the Python source (AST interpreter) + z3 validity queries per path under a scenario precondition",
    )


def replay_file(path):
    import json

    r = json.load(open(path))["replay"]
    if r["kind"] == "pin":
        from vf.harness import pinlemma

        return pinlemma.replay(r)
    if r["kind"] == "model":
        bad, groups = concrete_oracle(c06.build_concrete(r["witness"]), r["witness"])
        print(groups, bad)
        return 1 if bad else 0
    return 1
