"""C08 — resolution is online (shares the harness of C06)."""
from vf.harness import c06


def check(rep):
    return c06.run_property(rep, "C08")


replay_file = c06.replay_file
